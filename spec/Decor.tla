------------------------------- MODULE Decor -------------------------------
(***************************************************************************)
(* C09 - comments and layout never change what a program means.            *)
(*                                                                         *)
(* A program T is a document of FmtDoc.tla; Decorate(T, p) writes ordinary *)
(* comments (no annotation, no #FASTLY macro) into a subset p of its gaps  *)
(* - the placeholders of docs/parser.md and the other positions the        *)
(* grammar tolerates: around operators, inside groups and argument lists,  *)
(* between `else` and `if` - and, when lay = 1, replaces the canonical     *)
(* single-space layout by seeded blank lines, indentation and line breaks. *)
(*                                                                         *)
(* REQUIREMENT   Obs(Decorate(T, p)) = Obs(T)    where Obs is              *)
(*   - the linter's diagnostics (severity, rule, message), positions       *)
(*     erased, and                                                         *)
(*   - for executable programs, what one request does: the subroutines     *)
(*     entered, the log lines (which carry the variable values the         *)
(*     segments read back), restarts, error, status of the response.       *)
(* On the model the requirement holds by construction: Sem (below) is      *)
(* defined on the abstract syntax, which has no comments.  The substance   *)
(* is the binding: both texts go through the real linter and simulator.    *)
(*                                                                         *)
(* MECHANISM / prediction: executable programs are built from segments     *)
(* whose effect on the request (GET /x, header A: a, cold cache) is known: *)
(* Sem gives the log lines and the lifecycle path (the cold-cache rows of  *)
(* the successor table of Lifecycle.tla).  The undecorated and the         *)
(* decorated run are both compared with it (DRIFT when both deviate in     *)
(* the same way).                                                          *)
(***************************************************************************)
EXTENDS FmtDoc, Integers, Json

CONSTANTS ProgSet,     \* "exec" | "units" | "annot"
          MaxDecor,    \* comments per decorated variant (1 or 2)
          Layouts      \* subset of {0, 1}

VARIABLES prog, cm, lay
dvars == <<prog, cm, lay>>

Log(s)   == ValS("log", "log", Str(s, "\"" \o s \o "\""))
LogE(e)  == ValS("log", "log", e)
idS == Id("var.s")

(***************************************************************************)
(* Segments of vcl_recv: statements and the log lines they produce         *)
(***************************************************************************)
Seg(name, body, logs) == [name |-> name, body |-> body, logs |-> logs]
Segments == {
  Seg("log", <<Log("m1")>>, <<"m1">>),
  Seg("if-else", <<If(Infix("==", idA, sA), <<Log("t")>>, <<>>, Else(<<Log("e")>>))>>, <<"t">>),
  Seg("if-elif", <<If(Infix("==", idA, sB), <<Log("t")>>,
                     <<Elif(W("else") \o G("elif", "between", "in", FALSE) \o W("if"), "else if", Infix("&&", Infix("~", idA, Str("^a", "\"^a\"")), Prefix("!", idB)), <<Log("ei")>>),
                       Elif(W("elsif"), "elsif", idA, <<Log("ei2")>>)>>, Else(<<Log("e")>>))>>, <<"ei">>),
  Seg("set-read", <<SetS(idB, "=", Cat(sB, idA, TRUE)), LogE(idB)>>, <<"ba">>),
  Seg("local", <<Declare("var.s", "STRING", NoneObj), SetS(idS, "=", Cat(Cat(Str("x", "\"x\""), idA, FALSE), Str("y", "\"y\""), TRUE)), LogE(idS)>>, <<"xay">>),
  Seg("unset", <<UnRm("unset", idA), If(idA, <<Log("set")>>, <<>>, Else(<<Log("unset")>>))>>, <<"unset">>),
  Seg("remove", <<SetS(idB, "=", sB), UnRm("remove", idB), If(Prefix("!", idB), <<Log("gone")>>, <<>>, NoneObj)>>, <<"gone">>),
  Seg("add", <<AddS(idC, "=", sA), LogE(idC)>>, <<"a">>),
  Seg("switch", <<Switch(idA, <<Case(TestEq(sB), <<Log("cb"), Break>>, FALSE), Case(TestEq(sA), <<Log("ca"), Fallthrough>>, TRUE),
                                Case(TestRe(Str("^z", "\"^z\"")), <<Log("cz"), Break>>, FALSE), Case(NoneObj, <<Log("cd"), Break>>, FALSE)>>)>>,
      <<"ca", "cz">>),
  Seg("call", <<Call("helper", <<>>, "bare"), Call("helper", <<>>, "parens")>>, <<"h", "h">>),
  Seg("fcall", <<SetS(idB, "=", FCallX("std.toupper", <<Cat(sA, idA, TRUE)>>)), LogE(idB)>>, <<"AA">>),
  Seg("ifx", <<LogE(IfX(Infix("==", idA, sA), Str("y", "\"y\""), Str("n", "\"n\"")))>>, <<"y">>),
  Seg("group", <<If(Infix("&&", Group(Infix("||", Infix("==", idA, sB), Infix("!=", idA, sB))), Prefix("!", Group(idB))), <<Log("g")>>, <<>>, NoneObj)>>, <<"g">>),
  Seg("block", <<Block(<<Log("b1"), Block(<<Log("b2")>>)>>)>>, <<"b1", "b2">>),
  Seg("acl", <<If(Infix("~", Id("client.ip"), Id("internal")), <<Log("in")>>, <<>>, Else(<<Log("out")>>))>>, <<"out">>),
  Seg("table", <<LogE(FCallX("table.lookup", <<Id("t1"), sA, Str("nf", "\"nf\"")>>))>>, <<"b">>),
  \* mechanism: the simulator knowingly does not implement goto (the arms are commented out in
  \* interpreter/statement.go ProcessBlockStatement), so the statement in between runs
  Seg("goto", <<Goto("end"), Log("skipped"), Label("end:", "end:"), Log("after")>>, <<"skipped", "after">>),
  Seg("esi", <<>>, <<>>),
  \* builtins whose parameters are identifiers (ID type: not evaluated, looked up by name) and identifier-valued variables
  Seg("header", <<FCall("header.set", <<Id("req"), Str("X-H", "\"X-H\""), Str("v", "\"v\"")>>),
                  LogE(FCallX("header.get", <<Id("req"), Str("X-H", "\"X-H\"")>>)),
                  FCall("header.unset", <<Id("req"), Str("X-H", "\"X-H\"")>>),
                  If(Prefix("!", Id("req.http.X-H")), <<Log("hu")>>, <<>>, NoneObj),
                  FCall("header.filter_except", <<Id("req"), Str("A", "\"A\"")>>), LogE(idA)>>, <<"v", "hu", "a">>),
  Seg("collect", <<FCall("std.collect", <<idA>>), If(Infix(">", FCallX("std.count", <<Id("req.headers")>>), Int("0", "0")), <<Log("cnt")>>, <<>>, NoneObj)>>,
      <<"cnt">>),
  Seg("ratelimit", <<If(Infix(">", FCallX("ratelimit.ratecounter_increment", <<Id("rc"), Str("k", "\"k\""), Int("1", "1")>>), Int("0", "0")), <<Log("rc")>>, <<>>, NoneObj),
                     FCall("ratelimit.penaltybox_add", <<Id("pb"), Str("k", "\"k\""), RTime("10s")>>),
                     If(FCallX("ratelimit.penaltybox_has", <<Id("pb"), Str("k", "\"k\"")>>), <<Log("pb")>>, <<>>, Else(<<Log("nopb")>>))>>, <<"rc", "pb">>),
  Seg("backend-id", <<SetS(Id("req.backend"), "=", Id("example")), LogE(Id("req.backend"))>>, <<"example">>),
  Seg("crypto", <<LogE(FCallX("crypto.encrypt_hex", <<Id("aes128"), Id("cbc"), Id("nopad"), Str("k", "\"000102030405060708090a0b0c0d0e0f\""),
                                                      Str("iv", "\"000102030405060708090a0b0c0d0e0f\""), Str("t", "\"00112233445566778899aabbccddeeff\"")>>))>>,
      <<"76d0627da1d290436e21a4af7fca94b7">>),
  Seg("regsub", <<SetS(idB, "=", FCallX("regsub", <<Cat(sA, idA, TRUE), Str("^a", "\"^a\""), Str("z", "\"z\"")>>)), LogE(idB)>>, <<"za">>)
}

(***************************************************************************)
(* Terminals of vcl_recv and the lifecycle path of a cold cache.  Every    *)
(* lifecycle subroutine logs its name, so the path is part of the logs.    *)
(***************************************************************************)
Terminals == {"fall", "lookup", "lookup-plain", "pass", "error", "error-ret", "restart"}
TermBody(t) ==
  CASE t = "fall"         -> <<>>
    [] t = "lookup"       -> <<Return(Id("lookup"), "paren")>>
    [] t = "lookup-plain" -> <<Return(Id("lookup"), "plain")>>
    [] t = "pass"         -> <<Return(Id("pass"), "paren")>>
    [] t = "error"        -> <<ErrorS(Int("601", "601"), Str("boom", "\"boom\""))>>
    [] t = "error-ret"    -> <<Return(Id("error"), "paren")>>
    [] t = "restart"      -> <<If(Infix("==", Id("req.restarts"), Int("0", "0")), <<Restart>>, <<>>, NoneObj)>>
\* cold cache, every subroutine falls off its end (Lifecycle.tla RSucc rows "none")
PathOf(t) ==
  CASE t \in {"fall", "lookup", "lookup-plain"} -> <<"recv", "hash", "miss", "fetch", "deliver", "log">>
    [] t = "pass"                  -> <<"recv", "hash", "pass", "fetch", "deliver", "log">>
    [] t \in {"error", "error-ret"} -> <<"recv", "error", "deliver", "log">>
    [] t = "restart"               -> <<"recv", "recv", "hash", "miss", "fetch", "deliver", "log">>

\* every lifecycle subroutine starts with its #FASTLY macro: the harness configures a scoped snippet `log "snip-<scope>";`
\* for recv and deliver, so macro expansion is part of what the request does
Macro(name) == [a |-> [k |-> "annot", p_blank |-> FALSE], t |-> W("#FASTLY " \o name) \o NL]
SubOf(name, body) == Sub("vcl_" \o name, <<>>, "", <<Macro(name), Log("@" \o name)>> \o body)
SnipLog(name) == IF name \in {"recv", "deliver"} THEN <<"snip-" \o name>> ELSE <<>>
Others == <<"hash", "miss", "pass", "fetch", "error", "deliver", "log", "hit">>
Exec(seg, t) ==
  [name |-> seg.name \o "/" \o t,
   ds |-> <<Backend("example", <<Prop("bprop", "host", Str("__HOST__", "\"__HOST__\"")), Prop("bprop", "port", Str("__PORT__", "\"__PORT__\"")),
                                  Prop("bprop", "ssl", Bool(FALSE))>>),
            Acl("internal", <<Cidr(FALSE, "10.0.0.0", "8"), Cidr(TRUE, "10.1.0.0", "16")>>),
            Table("t1", "STRING", <<TProp(sA, sB, TRUE)>>),
            Empty("ratecounter", "rc"), Empty("penaltybox", "pb"),
            Sub("helper", <<>>, "", <<Log("h")>>),
            SubOf("recv", seg.body \o TermBody(t))>>
           \o [i \in 1..Len(Others) |-> SubOf(Others[i], <<>>)],
   exec |-> TRUE, nd |-> 7, annot |-> FALSE,
   \* Sem: the log lines of the request (a restart runs the segment twice)
   logs |-> LET once == <<"@recv">> \o seg.logs
                rest == [i \in 1..(Len(PathOf(t)) - (IF t = "restart" THEN 2 ELSE 1)) |-> "@" \o PathOf(t)[i + (IF t = "restart" THEN 2 ELSE 1)]]
            IN IF t = "restart" THEN once \o once \o rest ELSE once \o rest,
   path |-> PathOf(t)]

\* programs whose interesting statements sit in later subroutines (error / fetch / deliver scope variables,
\* synthetic, return forms of those scopes); extras = <<name, body>> pairs, listed right after vcl_recv
Late(name, recvBody, extras, logs, path) ==
  LET names == {extras[i][1] : i \in DOMAIN extras}
      rest == SelectSeq(Others, LAMBDA o : o \notin names)
  IN [name |-> name,
      ds |-> <<Backend("example", <<Prop("bprop", "host", Str("__HOST__", "\"__HOST__\"")), Prop("bprop", "port", Str("__PORT__", "\"__PORT__\"")),
                                     Prop("bprop", "ssl", Bool(FALSE))>>),
               Acl("internal", <<Cidr(FALSE, "10.0.0.0", "8")>>),
               Table("t1", "STRING", <<TProp(sA, sB, TRUE)>>),
               Sub("helper", <<>>, "", <<Log("h")>>),
               SubOf("recv", recvBody)>>
              \o [i \in DOMAIN extras |-> SubOf(extras[i][1], extras[i][2])]
              \o [i \in DOMAIN rest |-> SubOf(rest[i], <<>>)],
      exec |-> TRUE, nd |-> 5 + Len(extras), annot |-> FALSE, logs |-> logs, path |-> path]
idE == Id("obj.http.X-E")   idZ == Id("resp.http.Z")   idF == Id("beresp.http.F")
LateProgs == {
  Late("late/error", <<ErrorS(Int("701", "701"), Str("R", "\"R\""))>>,
       << <<"error", <<SetS(Id("obj.status"), "=", Int("702", "702")), SetS(idE, "=", Cat(Str("e", "\"e\""), Id("obj.status"), FALSE)),
                       ValS("synthetic", "synthetic", Str("S", "{\"S\"}")), LogE(idE), Return(Id("deliver"), "paren")>> >>,
          <<"deliver", <<SetS(idZ, "=", Cat(Str("z", "\"z\""), Id("resp.http.X-E"), TRUE)), LogE(idZ), Return(Id("deliver"), "plain")>> >> >>,
       <<"@recv", "@error", "e702", "@deliver", "ze702", "@log">>, <<"recv", "error", "deliver", "log">>),
  Late("late/fetch", <<Return(Id("pass"), "paren")>>,
       << <<"fetch", <<SetS(Id("beresp.ttl"), "=", r10), SetS(idF, "=", Str("f", "\"f\"")),
                       If(Infix("==", Id("beresp.status"), Int("200", "200")), <<Log("ok")>>, <<>>, Else(<<Log("notok")>>)),
                       Return(Id("deliver"), "paren")>> >>,
          <<"deliver", <<LogE(Id("resp.http.F")), UnRm("unset", Id("resp.http.F")), If(Prefix("!", Id("resp.http.F")), <<Log("gone")>>, <<>>, NoneObj)>> >>,
          <<"log", <<LogE(Cat(Str("s", "\"s\""), Id("resp.status"), FALSE))>> >> >>,
       <<"@recv", "@hash", "@pass", "@fetch", "ok", "@deliver", "f", "gone", "@log", "s200">>, <<"recv", "hash", "pass", "fetch", "deliver", "log">>)
}

\* a hash director over three backends (all pointing at the stub): which backend serves the request must not depend on
\* comments in the backend declarations.  No prediction (the choice is a hash the specification does not model).
\* (three stub servers, created once per harness process; each answers with its number in X-Backend)
StubBackend(n, port) == Backend(n, <<Prop("bprop", "host", Str("__HOST__", "\"__HOST__\"")), Prop("bprop", "port", Str(port, "\"" \o port \o "\"")),
                                     Prop("bprop", "ssl", Bool(FALSE))>>)
DirMembers == <<"b1", "b2", "b3">>
DirProg(dtype) ==
  [name |-> "director/" \o dtype,
   ds |-> <<StubBackend("b1", "__PORT__"), StubBackend("b2", "__PORT2__"), StubBackend("b3", "__PORT3__"),
            Director("d1", dtype, [i \in 1..3 |-> DBackend(<<DProp("backend", Id(DirMembers[i]))>>
                                                              \o (IF dtype = "chash" THEN <<DProp("id", Str(DirMembers[i], "\"" \o DirMembers[i] \o "\""))>>
                                                                  ELSE <<DProp("weight", Int("1", "1"))>>))]),
            SubOf("recv", <<SetS(Id("req.backend"), "=", Id("d1")), Return(Id("pass"), "paren")>>),
            SubOf("fetch", <<LogE(Id("beresp.http.X-Backend"))>>)>>
           \o (LET rest == SelectSeq(Others, LAMBDA o : o # "fetch") IN [i \in DOMAIN rest |-> SubOf(rest[i], <<>>)]),
   exec |-> TRUE, nd |-> 4, annot |-> FALSE, logs |-> <<>>, path |-> <<>>]

ExecProgs ==
  {Exec(s, "fall") : s \in Segments} \cup {Exec(CHOOSE s \in Segments : s.name = "log", t) : t \in Terminals}
  \cup {Exec(CHOOSE s \in Segments : s.name = "if-else", t) : t \in {"pass", "restart"}}
  \cup LateProgs \cup {DirProg("hash"), DirProg("client"), DirProg("chash")}
\* lint only: every statement and declaration kind of FmtDoc (most of them carry lint errors of their own:
\* undefined variables and subroutines, type mismatches, missing macros - the "injected errors")
UnitProgs == {[name |-> d.fam \o "/" \o d.focus, ds |-> d.ds, exec |-> FALSE, nd |-> Len(d.ds), annot |-> FALSE, logs |-> <<>>, path |-> <<>>] : d \in UnitDocs}

(***************************************************************************)
(* Lint-only programs that CARRY annotations: falco-ignore-next-line,      *)
(* falco-ignore (this line), falco-ignore-start / -end - with and without  *)
(* rule lists, in the three marker styles - and @scope.  The annotation is *)
(* part of the program (a word of the template, on a line of its own or at *)
(* the end of the statement's line); the decoration is an ORDINARY comment *)
(* at any gap, in particular between the annotation and its statement.     *)
(* The diagnostics (those the annotation suppresses stay suppressed, the   *)
(* others stay reported) must not change.                                  *)
(***************************************************************************)
Annot(text) == [a |-> [k |-> "annot", p_blank |-> FALSE], t |-> G("annot", "before", "lead", FALSE) \o W(text) \o NL]
\* the statement followed, on its own line, by the annotation (no gap between `;` and the annotation: a line comment there
\* would move the annotation to another line)
ThisLine(st, text) == [a |-> st.a, t |-> SubSeq(st.t, 1, Len(st.t) - 2) \o W(text) \o NL]
Bad  == SetS(idA, "=", Id("var.undef"))            \* two diagnostics: operator/assignment and an undefined variable
Bad2 == SetS(idB, "=", FCallX("regsub", <<Id("req.url"), Id("req.http.pat"), Str("", "\"\"")>>))     \* regex pattern must be a literal
AnnotBodies == <<
  <<"next-line",       <<Annot("// falco-ignore-next-line"), Bad, Bad2>> >>,
  <<"next-line-rules", <<Annot("// falco-ignore-next-line operator/assignment"), Bad, LogA>> >>,
  <<"next-line-sharp", <<Annot("# falco-ignore-next-line"), Bad, Annot("/* falco-ignore-next-line */"), Bad2>> >>,
  <<"this-line",       <<ThisLine(Bad, "// falco-ignore"), Bad2>> >>,
  <<"this-line-rules", <<ThisLine(Bad, "// falco-ignore operator/assignment"), ThisLine(Bad2, "# falco-ignore")>> >>,
  <<"start-end",       <<Annot("// falco-ignore-start"), Bad, Bad2, Annot("// falco-ignore-end"), Bad>> >>,
  <<"start-end-rules", <<Annot("// falco-ignore-start operator/assignment"), Bad, LogA, Annot("// falco-ignore-end operator/assignment"), Bad>> >>,
  <<"nested",          <<Annot("// falco-ignore-next-line"), If(Cmp, <<Bad>>, <<Elif(W("elsif"), "elsif", Mat, <<Bad2>>)>>, Else(<<Bad>>)), Bad>> >>,
  <<"none",            <<Bad, Bad2>> >> >>
AnnotProgs ==
  {[name |-> "annot/" \o AnnotBodies[i][1],
    ds |-> <<Sub("vcl_recv", <<>>, "", <<Annot("#FASTLY RECV")>> \o AnnotBodies[i][2])>>,
    exec |-> FALSE, nd |-> 1, annot |-> TRUE, logs |-> <<>>, path |-> <<>>] : i \in DOMAIN AnnotBodies}
  \cup {[name |-> "annot/scope",
          ds |-> <<Annot("// @scope: deliver"), Sub("custom", <<>>, "", <<SetS(Id("resp.http.X"), "=", sA)>>),
                   Annot("//@scope: recv, deliver"), Sub("custom2", <<>>, "", <<SetS(Id("req.http.X"), "=", sA), Bad>>),
                   Annot("// falco-ignore-next-line"), Sub("custom3", <<>>, "", <<Bad>>)>>,
          exec |-> FALSE, nd |-> 6, annot |-> TRUE, logs |-> <<>>, path |-> <<>>]}
Progs == IF ProgSet = "exec" THEN ExecProgs ELSE IF ProgSet = "annot" THEN AnnotProgs ELSE UnitProgs

Markers == {"#", "//", "/*"}
ProgT(p) == CatT(p.ds)
\* decorated are the declarations that differ between programs (the lifecycle stubs after vcl_recv are all alike)
NDecorated(p) == p.nd
Decors(p) ==
  LET n == Cardinality(GapIdx(CatT(SubSeq(p.ds, 1, NDecorated(p)))))
      gs == GapSeq(ProgT(p))
      \* a comment; or - at positions on a line of their own - an empty line, or an empty line followed by a comment
      \* statement positions: a comment there may be followed by code on the next line of the same subroutine
      StmtKinds == {"set", "add", "unset", "remove", "log", "if", "switch", "call", "fcall", "declare", "return", "error", "esi", "restart",
                    "synthetic", "synthetic64", "goto", "label", "block", "break", "fallthrough"}
      one(i) == {[at |-> i, m |-> m, sp |-> "plain"] : m \in Markers}
                \* block comments whose closing slash follows a run of asterisks, or that are nothing but asterisks
                \cup {[at |-> i, m |-> "/*", sp |-> "stars2"], [at |-> i, m |-> "/*", sp |-> "tri"]}
                \cup (IF gs[i].c = "lead" THEN {[at |-> i, m |-> "/*", sp |-> "stars3"], [at |-> i, m |-> "/*", sp |-> "stars4"],
                                                 [at |-> i, m |-> "/*", sp |-> "bare"]} ELSE {})
                \* an empty line, or an empty line followed by a comment - between statements AND between the tokens of a
                \* statement (operands of a juxtaposed concatenation, arguments)
                \cup (IF gs[i].c \in {"lead", "inner", "in"}
                      THEN {[at |-> i, m |-> "#", sp |-> "blankonly"], [at |-> i, m |-> "//", sp |-> "blankbefore"]} ELSE {})
                \* line comments as long as common buffer sizes whose tail is valid VCL (`... log "activated";`)
                \cup (IF gs[i].c = "lead" /\ gs[i].n \in StmtKinds
                      THEN {[at |-> i, m |-> m, sp |-> l] : m \in {"#", "//"}, l \in {"long4095", "long4096", "long4097", "long8192", "long65536"}}
                      ELSE {})
  IN {<<c>> : c \in UNION {one(i) : i \in 1..n}}
     \cup (IF MaxDecor >= 2
           \* (pairs: ordinary spellings, the star run and the empty line; the other spellings are covered one at a time)
           THEN UNION {{<<c1, c2>> : c1 \in {x \in one(ij[1]) : x.sp \in {"plain", "stars2", "blankonly"}},
                                      c2 \in {x \in one(ij[2]) : x.sp \in {"plain", "blankonly"}}} : ij \in {q \in (1..n) \X (1..n) : q[1] < q[2] /\ q[2] <= q[1] + 2}}
           ELSE {})

\* one state per (program, decoration, layout); Init picks the program, Decorate the rest
Init == prog \in Progs /\ cm = <<>> /\ lay = -1
Decorate == /\ lay = -1 /\ lay' \in Layouts /\ cm' \in Decors(prog) /\ UNCHANGED prog
Spec == Init /\ [][Decorate]_dvars

\* REQUIREMENT on the model: the semantics is a function of the abstract syntax, which Decorate does not touch
Inert == [][prog' = prog]_dvars

\* Sem with the scoped snippets of the harness: the macro at the head of vcl_recv / vcl_deliver logs first
RECURSIVE WithSnips(_)
WithSnips(ls) == IF ls = <<>> THEN <<>>
                 ELSE (IF ls[1] = "@recv" THEN <<"snip-recv">> ELSE IF ls[1] = "@deliver" THEN <<"snip-deliver">> ELSE <<>>)
                      \o <<ls[1]>> \o WithSnips(Tail(ls))
Enc(p) == CASE p.t = "w" -> p.s
            [] p.t = "g" -> "@" \o p.n \o ":" \o p.l \o ":" \o p.c \o ":" \o (IF p.d THEN "1" ELSE "0")
            [] p.t = "nl" -> "\n"
            [] OTHER -> "\n\n"
\* one line per program: the template and every decoration TLC enumerates for it (the Decorate steps of the state graph)
Emit == lay = -1 =>
  PrintT(<<"BEHAVIOUR", ToJson([name |-> prog.name, exec |-> prog.exec, toks |-> [i \in DOMAIN ProgT(prog) |-> Enc(ProgT(prog)[i])],
                                 \* seeded line breaks would move an end-of-line annotation to another line
                                 decors |-> Decors(prog), lays |-> IF prog.annot THEN Layouts \cap {0, 2} ELSE Layouts, logs |-> WithSnips(prog.logs), path |-> prog.path])>>)
=============================================================================
