------------------------------- MODULE Decor -------------------------------
(***************************************************************************)
(* C09 - comments and layout never change what a program means.            *)
(*                                                                         *)
(* A program T is a document of FmtDoc.tla; Decorate(T, p) writes ordinary *)
(* comments (no annotation, no #FASTLY macro) into a subset p of its gaps  *)
(* - the placeholders of docs/parser.md and the other positions the        *)
(* grammar tolerates: around operators, inside groups and argument lists,  *)
(* between `else` and `if` - and, when lay = 1, replaces the canonical     *)
(* single-space layout by seeded blank lines, indentation and line breaks. *)
(*                                                                         *)
(* REQUIREMENT   Obs(Decorate(T, p)) = Obs(T)    where Obs is              *)
(*   - the linter's diagnostics (severity, rule, message), positions       *)
(*     erased, and                                                         *)
(*   - for executable programs, what one request does: the subroutines     *)
(*     entered, the log lines (which carry the variable values the         *)
(*     segments read back), restarts, error, status of the response.       *)
(* On the model the requirement holds by construction: Sem (below) is      *)
(* defined on the abstract syntax, which has no comments.  The substance   *)
(* is the binding: both texts go through the real linter and simulator.    *)
(*                                                                         *)
(* MECHANISM / prediction: executable programs are built from segments     *)
(* whose effect on the request (GET /x, header A: a, cold cache) is known: *)
(* Sem gives the log lines and the lifecycle path (the cold-cache rows of  *)
(* the successor table of Lifecycle.tla).  The undecorated and the         *)
(* decorated run are both compared with it (DRIFT when both deviate in     *)
(* the same way).                                                          *)
(***************************************************************************)
EXTENDS FmtDoc, Integers, Json

CONSTANTS ProgSet,     \* "exec" | "units"
          MaxDecor,    \* comments per decorated variant (1 or 2)
          Layouts      \* subset of {0, 1}

VARIABLES prog, cm, lay
dvars == <<prog, cm, lay>>

Log(s)   == ValS("log", "log", Str(s, "\"" \o s \o "\""))
LogE(e)  == ValS("log", "log", e)
idS == Id("var.s")

(***************************************************************************)
(* Segments of vcl_recv: statements and the log lines they produce         *)
(***************************************************************************)
Seg(name, body, logs) == [name |-> name, body |-> body, logs |-> logs]
Segments == {
  Seg("log", <<Log("m1")>>, <<"m1">>),
  Seg("if-else", <<If(Infix("==", idA, sA), <<Log("t")>>, <<>>, Else(<<Log("e")>>))>>, <<"t">>),
  Seg("if-elif", <<If(Infix("==", idA, sB), <<Log("t")>>,
                     <<Elif(W("else") \o G("elif", "between", "in", FALSE) \o W("if"), "else if", Infix("&&", Infix("~", idA, Str("^a", "\"^a\"")), Prefix("!", idB)), <<Log("ei")>>),
                       Elif(W("elsif"), "elsif", idA, <<Log("ei2")>>)>>, Else(<<Log("e")>>))>>, <<"ei">>),
  Seg("set-read", <<SetS(idB, "=", Cat(sB, idA, TRUE)), LogE(idB)>>, <<"ba">>),
  Seg("local", <<Declare("var.s", "STRING", NoneObj), SetS(idS, "=", Cat(Cat(Str("x", "\"x\""), idA, FALSE), Str("y", "\"y\""), TRUE)), LogE(idS)>>, <<"xay">>),
  Seg("unset", <<UnRm("unset", idA), If(idA, <<Log("set")>>, <<>>, Else(<<Log("unset")>>))>>, <<"unset">>),
  Seg("remove", <<SetS(idB, "=", sB), UnRm("remove", idB), If(Prefix("!", idB), <<Log("gone")>>, <<>>, NoneObj)>>, <<"gone">>),
  Seg("add", <<AddS(idC, "=", sA), LogE(idC)>>, <<"a">>),
  Seg("switch", <<Switch(idA, <<Case(TestEq(sB), <<Log("cb"), Break>>, FALSE), Case(TestEq(sA), <<Log("ca"), Fallthrough>>, TRUE),
                                Case(TestRe(Str("^z", "\"^z\"")), <<Log("cz"), Break>>, FALSE), Case(NoneObj, <<Log("cd"), Break>>, FALSE)>>)>>,
      <<"ca", "cz">>),
  Seg("call", <<Call("helper", <<>>, "bare"), Call("helper", <<>>, "parens")>>, <<"h", "h">>),
  Seg("fcall", <<SetS(idB, "=", FCallX("std.toupper", <<Cat(sA, idA, TRUE)>>)), LogE(idB)>>, <<"AA">>),
  Seg("ifx", <<LogE(IfX(Infix("==", idA, sA), Str("y", "\"y\""), Str("n", "\"n\"")))>>, <<"y">>),
  Seg("group", <<If(Infix("&&", Group(Infix("||", Infix("==", idA, sB), Infix("!=", idA, sB))), Prefix("!", Group(idB))), <<Log("g")>>, <<>>, NoneObj)>>, <<"g">>),
  Seg("block", <<Block(<<Log("b1"), Block(<<Log("b2")>>)>>)>>, <<"b1", "b2">>),
  Seg("acl", <<If(Infix("~", Id("client.ip"), Id("internal")), <<Log("in")>>, <<>>, Else(<<Log("out")>>))>>, <<"out">>),
  Seg("table", <<LogE(FCallX("table.lookup", <<Id("t1"), sA, Str("nf", "\"nf\"")>>))>>, <<"b">>),
  \* mechanism: the simulator knowingly does not implement goto (the arms are commented out in
  \* interpreter/statement.go ProcessBlockStatement), so the statement in between runs
  Seg("goto", <<Goto("end"), Log("skipped"), Label("end:", "end:"), Log("after")>>, <<"skipped", "after">>),
  Seg("esi", <<>>, <<>>)
}

(***************************************************************************)
(* Terminals of vcl_recv and the lifecycle path of a cold cache.  Every    *)
(* lifecycle subroutine logs its name, so the path is part of the logs.    *)
(***************************************************************************)
Terminals == {"fall", "lookup", "lookup-plain", "pass", "error", "error-ret", "restart"}
TermBody(t) ==
  CASE t = "fall"         -> <<>>
    [] t = "lookup"       -> <<Return(Id("lookup"), "paren")>>
    [] t = "lookup-plain" -> <<Return(Id("lookup"), "plain")>>
    [] t = "pass"         -> <<Return(Id("pass"), "paren")>>
    [] t = "error"        -> <<ErrorS(Int("601", "601"), Str("boom", "\"boom\""))>>
    [] t = "error-ret"    -> <<Return(Id("error"), "paren")>>
    [] t = "restart"      -> <<If(Infix("==", Id("req.restarts"), Int("0", "0")), <<Restart>>, <<>>, NoneObj)>>
\* cold cache, every subroutine falls off its end (Lifecycle.tla RSucc rows "none")
PathOf(t) ==
  CASE t \in {"fall", "lookup", "lookup-plain"} -> <<"recv", "hash", "miss", "fetch", "deliver", "log">>
    [] t = "pass"                  -> <<"recv", "hash", "pass", "fetch", "deliver", "log">>
    [] t \in {"error", "error-ret"} -> <<"recv", "error", "deliver", "log">>
    [] t = "restart"               -> <<"recv", "recv", "hash", "miss", "fetch", "deliver", "log">>

SubOf(name, body) == Sub("vcl_" \o name, <<>>, "", <<Log("@" \o name)>> \o body)
Others == <<"hash", "miss", "pass", "fetch", "error", "deliver", "log", "hit">>
Exec(seg, t) ==
  [name |-> seg.name \o "/" \o t,
   ds |-> <<Backend("example", <<Prop("bprop", "host", Str("__HOST__", "\"__HOST__\"")), Prop("bprop", "port", Str("__PORT__", "\"__PORT__\"")),
                                  Prop("bprop", "ssl", Bool(FALSE))>>),
            Acl("internal", <<Cidr(FALSE, "10.0.0.0", "8"), Cidr(TRUE, "10.1.0.0", "16")>>),
            Table("t1", "STRING", <<TProp(sA, sB, TRUE)>>),
            Sub("helper", <<>>, "", <<Log("h")>>),
            SubOf("recv", seg.body \o TermBody(t))>>
           \o [i \in 1..Len(Others) |-> SubOf(Others[i], <<>>)],
   exec |-> TRUE, nd |-> 5,
   \* Sem: the log lines of the request (a restart runs the segment twice)
   logs |-> LET once == <<"@recv">> \o seg.logs
                rest == [i \in 1..(Len(PathOf(t)) - (IF t = "restart" THEN 2 ELSE 1)) |-> "@" \o PathOf(t)[i + (IF t = "restart" THEN 2 ELSE 1)]]
            IN IF t = "restart" THEN once \o once \o rest ELSE once \o rest,
   path |-> PathOf(t)]

\* programs whose interesting statements sit in later subroutines (error / fetch / deliver scope variables,
\* synthetic, return forms of those scopes); extras = <<name, body>> pairs, listed right after vcl_recv
Late(name, recvBody, extras, logs, path) ==
  LET names == {extras[i][1] : i \in DOMAIN extras}
      rest == SelectSeq(Others, LAMBDA o : o \notin names)
  IN [name |-> name,
      ds |-> <<Backend("example", <<Prop("bprop", "host", Str("__HOST__", "\"__HOST__\"")), Prop("bprop", "port", Str("__PORT__", "\"__PORT__\"")),
                                     Prop("bprop", "ssl", Bool(FALSE))>>),
               Acl("internal", <<Cidr(FALSE, "10.0.0.0", "8")>>),
               Table("t1", "STRING", <<TProp(sA, sB, TRUE)>>),
               Sub("helper", <<>>, "", <<Log("h")>>),
               SubOf("recv", recvBody)>>
              \o [i \in DOMAIN extras |-> SubOf(extras[i][1], extras[i][2])]
              \o [i \in DOMAIN rest |-> SubOf(rest[i], <<>>)],
      exec |-> TRUE, nd |-> 5 + Len(extras), logs |-> logs, path |-> path]
idE == Id("obj.http.X-E")   idZ == Id("resp.http.Z")   idF == Id("beresp.http.F")
LateProgs == {
  Late("late/error", <<ErrorS(Int("701", "701"), Str("R", "\"R\""))>>,
       << <<"error", <<SetS(Id("obj.status"), "=", Int("702", "702")), SetS(idE, "=", Cat(Str("e", "\"e\""), Id("obj.status"), FALSE)),
                       ValS("synthetic", "synthetic", Str("S", "{\"S\"}")), LogE(idE), Return(Id("deliver"), "paren")>> >>,
          <<"deliver", <<SetS(idZ, "=", Cat(Str("z", "\"z\""), Id("resp.http.X-E"), TRUE)), LogE(idZ), Return(Id("deliver"), "plain")>> >> >>,
       <<"@recv", "@error", "e702", "@deliver", "ze702", "@log">>, <<"recv", "error", "deliver", "log">>),
  Late("late/fetch", <<Return(Id("pass"), "paren")>>,
       << <<"fetch", <<SetS(Id("beresp.ttl"), "=", r10), SetS(idF, "=", Str("f", "\"f\"")),
                       If(Infix("==", Id("beresp.status"), Int("200", "200")), <<Log("ok")>>, <<>>, Else(<<Log("notok")>>)),
                       Return(Id("deliver"), "paren")>> >>,
          <<"deliver", <<LogE(Id("resp.http.F")), UnRm("unset", Id("resp.http.F")), If(Prefix("!", Id("resp.http.F")), <<Log("gone")>>, <<>>, NoneObj)>> >>,
          <<"log", <<LogE(Cat(Str("s", "\"s\""), Id("resp.status"), FALSE))>> >> >>,
       <<"@recv", "@hash", "@pass", "@fetch", "ok", "@deliver", "f", "gone", "@log", "s200">>, <<"recv", "hash", "pass", "fetch", "deliver", "log">>)
}

ExecProgs ==
  {Exec(s, "fall") : s \in Segments} \cup {Exec(CHOOSE s \in Segments : s.name = "log", t) : t \in Terminals}
  \cup {Exec(CHOOSE s \in Segments : s.name = "if-else", t) : t \in {"pass", "restart"}}
  \cup LateProgs
\* lint only: every statement and declaration kind of FmtDoc (most of them carry lint errors of their own:
\* undefined variables and subroutines, type mismatches, missing macros - the "injected errors")
UnitProgs == {[name |-> d.fam \o "/" \o d.focus, ds |-> d.ds, exec |-> FALSE, nd |-> Len(d.ds), logs |-> <<>>, path |-> <<>>] : d \in UnitDocs}
Progs == IF ProgSet = "exec" THEN ExecProgs ELSE UnitProgs

Markers == {"#", "//", "/*"}
ProgT(p) == CatT(p.ds)
\* decorated are the declarations that differ between programs (the lifecycle stubs after vcl_recv are all alike)
NDecorated(p) == p.nd
Decors(p) ==
  LET n == Cardinality(GapIdx(CatT(SubSeq(p.ds, 1, NDecorated(p)))))
      one(i) == {[at |-> i, m |-> m, sp |-> "plain"] : m \in Markers}
  IN {<<c>> : c \in UNION {one(i) : i \in 1..n}}
     \cup (IF MaxDecor >= 2
           THEN UNION {{<<c1, c2>> : c1 \in one(ij[1]), c2 \in one(ij[2])} : ij \in {q \in (1..n) \X (1..n) : q[1] < q[2] /\ q[2] <= q[1] + 2}}
           ELSE {})

\* one state per (program, decoration, layout); Init picks the program, Decorate the rest
Init == prog \in Progs /\ cm = <<>> /\ lay = -1
Decorate == /\ lay = -1 /\ lay' \in Layouts /\ cm' \in Decors(prog) /\ UNCHANGED prog
Spec == Init /\ [][Decorate]_dvars

\* REQUIREMENT on the model: the semantics is a function of the abstract syntax, which Decorate does not touch
Inert == [][prog' = prog]_dvars

Enc(p) == CASE p.t = "w" -> p.s
            [] p.t = "g" -> "@" \o p.n \o ":" \o p.l \o ":" \o p.c \o ":" \o (IF p.d THEN "1" ELSE "0")
            [] p.t = "nl" -> "\n"
            [] OTHER -> "\n\n"
\* one line per program: the template and every decoration TLC enumerates for it (the Decorate steps of the state graph)
Emit == lay = -1 =>
  PrintT(<<"BEHAVIOUR", ToJson([name |-> prog.name, exec |-> prog.exec, toks |-> [i \in DOMAIN ProgT(prog) |-> Enc(ProgT(prog)[i])],
                                 decors |-> Decors(prog), lays |-> Layouts, logs |-> prog.logs, path |-> prog.path])>>)
=============================================================================
