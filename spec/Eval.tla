-------------------------------- MODULE Eval --------------------------------
(***************************************************************************)
(* Reference evaluator for the core of Fastly VCL (property C07; its       *)
(* totality obligations are C08's).                                        *)
(*                                                                         *)
(* This module is the REQUIREMENT layer: it is written from the Fastly     *)
(* language reference (types, operators, assignment operators, not-set     *)
(* semantics, if / switch), calibrated once against 57 one-assertion test  *)
(* programs (DESIGN.md appendix B) - not from falco's Go code.  falco's    *)
(* interpreter is the mechanism; the binding is replay: every program      *)
(* emitted here is executed statement by statement through the exported    *)
(* Interpreter API and the whole variable pool is read back after every    *)
(* top-level statement and compared with the store computed here.          *)
(*                                                                         *)
(* Where the language reference is silent the evaluator answers UNSPEC     *)
(* ("any value or a reported error" - the C08 obligation) or OOR (outside  *)
(* the exactly representable range of this model); execution of that       *)
(* program stops there.                                                    *)
(*                                                                         *)
(* Representation                                                          *)
(*   INTEGER  [t:"INT", v:n] for |n| <= 2^29, else [t:"BITS", v:<<64 bits, *)
(*            msb first>>] (two's complement) - TLC integers are 32 bit    *)
(*   FLOAT    exact dyadic rational n / 2^e, 0 <= e <= MaxE                *)
(*   RTIME    integer milliseconds                                         *)
(*   STRING   sequence of one-character strings + set flag                 *)
(*   BOOL     TRUE / FALSE                                                 *)
(***************************************************************************)
EXTENDS Integers, Sequences, FiniteSets, TLC, Json

Lim  == 536870912      \* 2^29: bound of natively represented integers
FLim == 1048576        \* 2^20: bound of float numerators
MaxE == 6              \* floats live on the grid of 1/64

Abs(n) == IF n < 0 THEN -n ELSE n
Max(a, b) == IF a > b THEN a ELSE b

-----------------------------------------------------------------------------
(* characters and decimal rendering *)
DigitCh(d) == <<"0", "1", "2", "3", "4", "5", "6", "7", "8", "9">>[d + 1]
RECURSIVE NatChars(_)
NatChars(n) == IF n < 10 THEN <<DigitCh(n)>> ELSE Append(NatChars(n \div 10), DigitCh(n % 10))
IntChars(n) == IF n < 0 THEN <<"-">> \o NatChars(-n) ELSE NatChars(n)
Pad3(n) == <<DigitCh(n \div 100), DigitCh((n \div 10) % 10), DigitCh(n % 10)>>
NullChars == <<"(", "n", "u", "l", "l", ")">>

-----------------------------------------------------------------------------
(* values *)
IntV(n)    == [t |-> "INT", i |-> n]
BitsV(bs)  == [t |-> "BITS", bits |-> bs]
BoolV(b)   == [t |-> "BOOL", b |-> b]
RTimeV(ms) == [t |-> "RTIME", ms |-> ms]
\* a COMPUTED duration with a part finer than a millisecond (2s / 3, 1ms * 0.5): ms = the whole milliseconds of the
\* magnitude with the sign, sub = the rest in nanoseconds (> 0), neg = the sign (needed when ms = 0).  Such a value can
\* be stored, copied, negated, ordered against whole-millisecond values and converted to a string; everything else
\* (further arithmetic, == / !=) is outside the model (OOR / UNSPEC).
RTimeX(q, sub, neg) == IF sub = 0 THEN RTimeV(IF neg THEN -q ELSE q)
                       ELSE [t |-> "RTIMEX", ms |-> (IF neg THEN -q ELSE q), sub |-> sub, neg |-> neg]
\* magnitude total / d milliseconds, total >= 0, 0 < d <= 2000
DivX(total, d, neg) == RTimeX(total \div d, ((total % d) * 1000000) \div d, neg)
StrV(cs)   == [t |-> "STR", set |-> TRUE, cs |-> cs]
NotSetV    == [t |-> "STR", set |-> FALSE, cs |-> <<>>]
Undecl     == [t |-> "UNDECL"]
ErrV       == [t |-> "ERR"]       \* a reported runtime error (e.g. division by zero)
UnspecV    == [t |-> "UNSPEC"]    \* the language reference does not say
OorV       == [t |-> "OOR"]       \* outside the range this model represents exactly
Bad(v)     == v.t \in {"ERR", "UNSPEC", "OOR"}
\* the worse of two bad outcomes decides: ERR < OOR < UNSPEC is irrelevant, first one wins

RECURSIVE Norm2(_, _)
Norm2(n, e) == IF n = 0 THEN [n |-> 0, e |-> 0]
               ELSE IF e > 0 /\ n % 2 = 0 THEN Norm2(n \div 2, e - 1)
               ELSE [n |-> n, e |-> e]
FloatV(n, e) == LET x == Norm2(n, e) IN
                IF x.e > MaxE \/ Abs(x.n) >= FLim THEN OorV ELSE [t |-> "FLOAT", n |-> x.n, e |-> x.e]

-----------------------------------------------------------------------------
(* 64-bit two's complement patterns, most significant bit first *)
RECURSIVE NatBits(_, _)
NatBits(n, w) == IF w = 0 THEN <<>> ELSE Append(NatBits(n \div 2, w - 1), n % 2)
Flip(bs) == [i \in 1..Len(bs) |-> 1 - bs[i]]
Bits(n) == IF n >= 0 THEN NatBits(n, 64) ELSE Flip(NatBits(-n - 1, 64))
RECURSIVE LowNat(_, _)
LowNat(bs, k) == IF k = 0 THEN 0 ELSE 2 * LowNat(SubSeq(bs, 1, Len(bs) - 1), k - 1) + bs[Len(bs)]
IsSmall(bs) == \A i \in 1..35 : bs[i] = bs[1]
ToInt(bs) == IF bs[1] = 0 THEN LowNat(bs, 29) ELSE LowNat(bs, 29) - Lim
NormInt(bs) == IF IsSmall(bs) THEN IntV(ToInt(bs)) ELSE BitsV(bs)
BitsOf(v) == IF v.t = "INT" THEN Bits(v.i) ELSE v.bits
MkInt(n) == IF Abs(n) <= Lim THEN IntV(n) ELSE OorV      \* native arithmetic result

BOr(x, y)  == IF x = 1 \/ y = 1 THEN 1 ELSE 0
BAnd(x, y) == IF x = 1 /\ y = 1 THEN 1 ELSE 0
BXor(x, y) == IF x # y THEN 1 ELSE 0
Zip(a, b, f(_, _)) == [i \in 1..64 |-> f(a[i], b[i])]
Shl(bs, k) == [i \in 1..64 |-> IF i + k <= 64 THEN bs[i + k] ELSE 0]
Sar(bs, k) == [i \in 1..64 |-> IF i - k >= 1 THEN bs[i - k] ELSE bs[1]]  \* arithmetic right shift: the sign bit fills
Rol(bs, k) == [i \in 1..64 |-> bs[((i - 1 + k) % 64) + 1]]
Ror(bs, k) == [i \in 1..64 |-> bs[((i - 1 - k + 64) % 64) + 1]]

\* 64-bit ripple-carry addition (bit 64 is the least significant); used where an operand is beyond 32 bits
RECURSIVE AddBits(_, _, _, _)
AddBits(a, b, i, carry) == IF i = 0 THEN <<>>
                           ELSE LET x == a[i] + b[i] + carry IN Append(AddBits(a, b, i - 1, x \div 2), x % 2)
BitsAdd(a, b) == AddBits(a, b, 64, 0)
MinBits == [i \in 1..64 |-> IF i = 1 THEN 1 ELSE 0]
BitsNeg(b) == BitsAdd(Flip(b), Bits(1))

TruncDiv(a, b) == LET q == Abs(a) \div Abs(b) IN IF (a >= 0) = (b >= 0) THEN q ELSE -q
TruncMod(a, b) == a - b * TruncDiv(a, b)

-----------------------------------------------------------------------------
(* exact dyadic arithmetic *)
Pow2(k) == 2 ^ k
FAdd(a, b) == LET e == Max(a.e, b.e) IN FloatV(a.n * Pow2(e - a.e) + b.n * Pow2(e - b.e), e)
FNeg(a) == [t |-> "FLOAT", n |-> -a.n, e |-> a.e]
FSub(a, b) == FAdd(a, FNeg(b))
FMul(a, b) == IF Abs(a.n) >= 32768 \/ Abs(b.n) >= 32768 THEN OorV ELSE FloatV(a.n * b.n, a.e + b.e)
\* a / b is representable iff some 2^k * (a.n * 2^b.e) is a multiple of (b.n * 2^a.e)
FDiv(a, b) ==
  IF b.n = 0 THEN ErrV
  ELSE IF Abs(a.n) >= 16384 \/ Abs(b.n) >= 16384 THEN OorV
  ELSE LET num == a.n * Pow2(b.e)
           den == b.n * Pow2(a.e)
           ks  == {k \in 0..MaxE : (num * Pow2(k)) % Abs(den) = 0} IN
       IF ks = {} THEN OorV
       ELSE LET k == CHOOSE x \in ks : \A y \in ks : x <= y
                q == (Abs(num) * Pow2(k)) \div Abs(den) IN
            FloatV(IF (num >= 0) = (den >= 0) THEN q ELSE -q, k)
FCmp(a, b) == LET e == Max(a.e, b.e) IN a.n * Pow2(e - a.e) - b.n * Pow2(e - b.e)   \* sign of a - b
FOfInt(n) == IF Abs(n) >= FLim THEN OorV ELSE FloatV(n, 0)
FTrunc(a) == LET q == Abs(a.n) \div Pow2(a.e) IN IF a.n >= 0 THEN q ELSE -q
\* three decimals, correctly rounded (ties to even) - what "%.3f" prints for an exactly representable value
FChars(a) ==
  LET t == Abs(a.n) * 1000
      d == Pow2(a.e)
      q0 == t \div d
      r == t % d
      q == IF 2 * r > d \/ (2 * r = d /\ q0 % 2 = 1) THEN q0 + 1 ELSE q0 IN
  (IF a.n < 0 THEN <<"-">> ELSE <<>>) \o NatChars(q \div 1000) \o <<".">> \o Pad3(q % 1000)
RChars(ms) == (IF ms < 0 THEN <<"-">> ELSE <<>>) \o NatChars(Abs(ms) \div 1000) \o <<".">> \o Pad3(Abs(ms) % 1000)
MkRTime(ms) == IF Abs(ms) <= Lim THEN RTimeV(ms) ELSE OorV

-----------------------------------------------------------------------------
(* conversion of a value to the characters it contributes to a string.     *)
(* ctx = "local": the string is being built for a local variable - a       *)
(* not-set string contributes nothing; otherwise (header, log) it is       *)
(* rendered "(null)".                                                      *)
ToChars(v, ctx) ==
  CASE v.t = "STR"   -> IF v.set THEN v.cs ELSE IF ctx = "local" THEN <<>> ELSE NullChars
    [] v.t = "INT"   -> IntChars(v.i)
    [] v.t = "FLOAT" -> FChars(v)
    [] v.t = "RTIME" -> RChars(v.ms)
    \* RTIME -> STRING shows seconds with three decimals and CUTS what is finer (0.6666.. s has not reached 0.667 s):
    \* like FLOAT -> INTEGER, a conversion never rounds away from zero
    [] v.t = "RTIMEX" -> (IF v.neg /\ v.ms = 0 THEN <<"-">> ELSE <<>>) \o RChars(v.ms)
    [] v.t = "BOOL"  -> IF v.b THEN <<"1">> ELSE <<"0">>
    [] OTHER         -> <<"?">>

-----------------------------------------------------------------------------
(* regular expressions: the subset  ^?literal$?  (a literal of >= 0 chars) *)
IsPrefix(p, s) == Len(p) <= Len(s) /\ SubSeq(s, 1, Len(p)) = p
IsSuffix(p, s) == Len(p) <= Len(s) /\ SubSeq(s, Len(s) - Len(p) + 1, Len(s)) = p
Occurs(p, s) == \E i \in 1..(Len(s) - Len(p) + 1) : SubSeq(s, i, i + Len(p) - 1) = p
ReMatch(re, s) ==
  CASE re.a /\ re.z  -> s = re.lit
    [] re.a          -> IsPrefix(re.lit, s)
    [] re.z          -> IsSuffix(re.lit, s)
    [] OTHER         -> Len(re.lit) = 0 \/ Occurs(re.lit, s)

-----------------------------------------------------------------------------
(* EXPRESSIONS.  Ev(e, S, ctx) = [v |-> value, g |-> effect on re.group.0] *)
(* ctx: "local" | "other" - see ToChars                                    *)
NoG == [has |-> FALSE, cs |-> <<>>]
R(v) == [v |-> v, g |-> NoG]
SeqG(g1, g2) == IF g2.has THEN g2 ELSE g1
SetG(S, g) == IF g.has THEN [S EXCEPT !["g0"] = StrV(g.cs)] ELSE S

Truth(v) == CASE v.t = "BOOL" -> BoolV(v.b)
              [] v.t = "STR"  -> BoolV(v.set)          \* a string is true iff it is set (even if empty)
              [] OTHER        -> UnspecV

IsNum(v) == v.t \in {"INT", "FLOAT"}
\* order of two 64-bit patterns as signed integers: -1, 0, 1
RECURSIVE CmpFrom(_, _, _)
CmpFrom(a, b, i) == IF i > 64 THEN 0 ELSE IF a[i] = b[i] THEN CmpFrom(a, b, i + 1) ELSE IF a[i] < b[i] THEN -1 ELSE 1
CmpBits(a, b) == IF a[1] # b[1] THEN (IF a[1] = 1 THEN -1 ELSE 1) ELSE CmpFrom(a, b, 2)
\* order of two durations of which at most one has a sub-millisecond part
XNeg(v) == IF v.t = "RTIMEX" THEN v.neg ELSE v.ms < 0
XSub(v) == IF v.t = "RTIMEX" THEN v.sub ELSE 0
CmpX(l, r) == IF XNeg(l) # XNeg(r) THEN (IF XNeg(l) THEN -1 ELSE 1)
              ELSE LET m == IF Abs(l.ms) # Abs(r.ms) THEN (IF Abs(l.ms) < Abs(r.ms) THEN -1 ELSE 1)
                            ELSE IF XSub(l) = XSub(r) THEN 0 ELSE IF XSub(l) < XSub(r) THEN -1 ELSE 1 IN
                   IF XNeg(l) THEN -m ELSE m
AsF(v) == IF v.t = "INT" THEN FOfInt(v.i) ELSE v
\* sign of l - r for two ordered values of compatible types; UNSPEC otherwise
Order(l, r) ==
  CASE l.t = "INT" /\ r.t = "INT"       -> IntV(IF l.i < r.i THEN -1 ELSE IF l.i > r.i THEN 1 ELSE 0)
    \* INTEGER values beyond 32 bits: exact 64-bit two's-complement order (never through binary64)
    [] l.t \in {"INT", "BITS"} /\ r.t \in {"INT", "BITS"} -> IntV(CmpBits(BitsOf(l), BitsOf(r)))
    [] l.t \in {"RTIME", "RTIMEX"} /\ r.t \in {"RTIME", "RTIMEX"} /\ (l.t = "RTIMEX" \/ r.t = "RTIMEX") ->
         IF l.t = "RTIMEX" /\ r.t = "RTIMEX" THEN UnspecV ELSE IntV(CmpX(l, r))
    [] l.t = "FLOAT" /\ IsNum(r)        -> LET b == AsF(r) IN IF Bad(b) THEN b ELSE
                                            LET c == FCmp(l, b) IN IntV(IF c < 0 THEN -1 ELSE IF c > 0 THEN 1 ELSE 0)
    [] l.t = "RTIME" /\ r.t = "RTIME"   -> IntV(IF l.ms < r.ms THEN -1 ELSE IF l.ms > r.ms THEN 1 ELSE 0)
    \* RTIME against a number (a count of seconds), in either operand order.  The reference does not say at which
    \* resolution such a comparison is made (falco: whole seconds) - the VALUE computed here (exact) is therefore not
    \* compared by the replay; what the property demands is the duality law, and that is what the mixed-type cells
    \* of EvalGen.tla check on the code (result variables are "free", the law b1 = b2 is not).
    [] l.t = "RTIME" /\ IsNum(r)        -> LET b == AsF(r) IN IF Bad(b) \/ Abs(l.ms) >= FLim THEN OorV ELSE
                                            LET c == l.ms * Pow2(b.e) - b.n * 1000 IN IntV(IF c < 0 THEN -1 ELSE IF c > 0 THEN 1 ELSE 0)
    [] IsNum(l) /\ r.t = "RTIME"        -> LET a == AsF(l) IN IF Bad(a) \/ Abs(r.ms) >= FLim THEN OorV ELSE
                                            LET c == a.n * 1000 - r.ms * Pow2(a.e) IN IntV(IF c < 0 THEN -1 ELSE IF c > 0 THEN 1 ELSE 0)
    [] l.t = "BITS" \/ r.t = "BITS"     -> OorV
    [] OTHER                            -> UnspecV
EqVal(l, r) ==
  CASE l.t = "STR" /\ r.t = "STR"   -> BoolV(l.set /\ r.set /\ l.cs = r.cs)     \* a not-set string equals nothing
    [] l.t = "BOOL" /\ r.t = "BOOL" -> BoolV(l.b = r.b)
    [] l.t \in {"INT", "BITS"} /\ r.t \in {"INT", "BITS"} -> BoolV(BitsOf(l) = BitsOf(r))
    \* whether a computed sub-millisecond duration "equals" a neighbouring whole-millisecond one is not described
    [] l.t = "RTIMEX" \/ r.t = "RTIMEX" -> UnspecV
    [] l.t # r.t -> IF l.t = "BITS" \/ r.t = "BITS" THEN OorV ELSE UnspecV     \* == between different types: the reference is silent
    [] OTHER -> LET o == Order(l, r) IN IF Bad(o) THEN o ELSE BoolV(o.i = 0)
Compare(op, l, r) ==
  IF op = "==" THEN EqVal(l, r)
  ELSE IF op = "!=" THEN (LET q == EqVal(l, r) IN IF Bad(q) THEN q ELSE BoolV(~q.b))
  ELSE LET o == Order(l, r) IN
       IF Bad(o) THEN o
       ELSE BoolV(CASE op = "<" -> o.i < 0 [] op = ">" -> o.i > 0 [] op = "<=" -> o.i <= 0 [] op = ">=" -> o.i >= 0)

NegVal(v) ==
  CASE v.t = "INT"   -> IntV(-v.i)
    [] v.t = "FLOAT" -> FNeg(v)
    [] v.t = "RTIME" -> RTimeV(-v.ms)
    [] v.t = "RTIMEX" -> [v EXCEPT !.ms = -v.ms, !.neg = ~v.neg]
    [] v.t = "BITS"  -> OorV
    [] OTHER         -> UnspecV

IsIdentNotSet(e, S) == e.k = "id" /\ S[e.name].t = "STR" /\ ~S[e.name].set

RECURSIVE Ev(_, _, _), CatParts(_, _, _, _)
CatParts(ps, i, S, ctx) ==     \* characters of parts i..Len(ps), or a bad value
  IF i > Len(ps) THEN StrV(<<>>)
  ELSE LET p == Ev(ps[i], S, ctx).v IN
       IF Bad(p) THEN p
       ELSE IF p.t = "BITS" THEN OorV
       \* a not-set value that does not come straight from a variable: the reference is silent
       ELSE IF p.t = "STR" /\ ~p.set /\ ps[i].k # "id" THEN UnspecV
       ELSE LET rest == CatParts(ps, i + 1, S, ctx) IN
            IF Bad(rest) THEN rest ELSE StrV(ToChars(p, ctx) \o rest.cs)

Ev(e, S, ctx) ==
  CASE e.k = "int"   -> R(IntV(e.iv))
    [] e.k = "float" -> R(FloatV(e.fn, e.fe))
    [] e.k = "str"   -> R(StrV(e.cs))
    [] e.k = "bool"  -> R(BoolV(e.bv))
    [] e.k = "rtime" -> R(RTimeV(e.ms))
    [] e.k = "bits"  -> R(NormInt(e.bits))        \* an INTEGER literal beyond 32 bits, given as its 64-bit pattern
    [] e.k = "id"    -> R(IF S[e.name].t = "UNDECL" THEN ErrV ELSE S[e.name])
    [] e.k = "neg"   -> LET r == Ev(e.e, S, ctx) IN IF Bad(r.v) THEN r ELSE [v |-> NegVal(r.v), g |-> r.g]
    [] e.k = "not"   -> LET r == Ev(e.e, S, ctx) IN
                        IF Bad(r.v) THEN r
                        ELSE LET b == Truth(r.v) IN [v |-> (IF Bad(b) THEN b ELSE BoolV(~b.b)), g |-> r.g]
    [] e.k = "grp"   -> Ev(e.e, S, ctx)
    [] e.k = "cmp"   -> LET l == Ev(e.l, S, ctx)  r == Ev(e.r, S, ctx) IN
                        IF Bad(l.v) THEN l ELSE IF Bad(r.v) THEN r
                        ELSE [v |-> Compare(e.op, l.v, r.v), g |-> SeqG(l.g, r.g)]
    [] e.k \in {"and", "or"} ->
                        \* both operands are evaluated, left to right: a match in the left operand is visible
                        \* (through re.group.0) to the right operand
                        LET l == Ev(e.l, S, ctx)  r == Ev(e.r, SetG(S, l.g), ctx) IN
                        IF Bad(l.v) THEN l ELSE IF Bad(r.v) THEN r
                        ELSE LET a == Truth(l.v)  b == Truth(r.v) IN
                             IF Bad(a) THEN [v |-> a, g |-> NoG] ELSE IF Bad(b) THEN [v |-> b, g |-> NoG]
                             ELSE [v |-> BoolV(IF e.k = "and" THEN a.b /\ b.b ELSE a.b \/ b.b), g |-> SeqG(l.g, r.g)]
    [] e.k = "match" -> \* l ~ re  /  l !~ re ; a successful match sets re.group.0 to the matched text
                        LET l == Ev(e.l, S, ctx) IN
                        IF Bad(l.v) THEN l
                        ELSE IF l.v.t # "STR" THEN R(UnspecV)
                        ELSE LET subject == IF l.v.set THEN l.v.cs ELSE <<>>
                                 m == ReMatch(e.rx, subject) IN
                             [v |-> BoolV(IF e.neg THEN ~m ELSE m),
                              g |-> IF m THEN [has |-> TRUE, cs |-> e.rx.lit] ELSE NoG]
    [] e.k = "cat"   -> \* juxtaposition / "+" : string concatenation
                        IF \A i \in 1..Len(e.parts) : IsIdentNotSet(e.parts[i], S)
                        THEN R(NotSetV)       \* nothing but not-set variables: the result is not set
                        ELSE R(CatParts(e.parts, 1, S, ctx))
    [] e.k = "ifx"   -> LET c == Ev(e.c, S, ctx) IN
                        IF Bad(c.v) THEN c
                        ELSE LET b == Truth(c.v) IN
                             IF Bad(b) THEN R(b) ELSE IF b.b THEN Ev(e.th, S, ctx) ELSE Ev(e.el, S, ctx)

-----------------------------------------------------------------------------
(* ASSIGNMENT OPERATORS.  Apply(vt, op, l, r, isHdr) = new value of the     *)
(* target of declared type vt holding l when `set target op r` executes.   *)
\* exact 64-bit sum / difference of two INTEGER values of any size; a result outside 64 bits is out of range
AddV(l, r) == LET a == BitsOf(l)  b == BitsOf(r)  x == BitsAdd(a, b) IN
              IF a[1] = b[1] /\ x[1] # a[1] THEN OorV ELSE NormInt(x)
SubV(l, r) == IF BitsOf(r) = MinBits THEN OorV ELSE AddV(l, NormInt(BitsNeg(BitsOf(r))))

IntInt(op, l, r) ==       \* INTEGER op= INTEGER
  IF op = "=" THEN r
  ELSE IF op \in {"|=", "&=", "^="} THEN
       NormInt(Zip(BitsOf(l), BitsOf(r), LAMBDA x, y : IF op = "|=" THEN BOr(x, y) ELSE IF op = "&=" THEN BAnd(x, y) ELSE BXor(x, y)))
  ELSE IF op \in {"<<=", ">>=", "rol=", "ror="} THEN
       (IF r.t = "BITS" THEN UnspecV
        \* A shift / rotation by n is n shifts / rotations by one (checked below: ShiftLaws).  Hence `<<=` by 64 or
        \* more leaves 0, `>>=` - INTEGER is signed, the shift is arithmetic - by 64 or more leaves 0 for a
        \* non-negative and -1 for a negative value, rotations count modulo 64.  A negative count is not described.
        ELSE IF r.i < 0 THEN UnspecV
        ELSE LET k == IF r.i > 64 THEN 64 ELSE r.i IN
             CASE op = "<<="  -> NormInt(Shl(BitsOf(l), k))
               [] op = ">>="  -> NormInt(Sar(BitsOf(l), k))
               [] op = "rol=" -> NormInt(Rol(BitsOf(l), r.i % 64))
               [] op = "ror=" -> NormInt(Ror(BitsOf(l), r.i % 64)))
  ELSE IF op = "+=" THEN AddV(l, r)
  ELSE IF op = "-=" THEN SubV(l, r)
  ELSE IF l.t = "BITS" \/ r.t = "BITS" THEN OorV
  ELSE CASE op = "*=" -> IF Abs(l.i) >= 32768 \/ Abs(r.i) >= 32768 THEN OorV ELSE MkInt(l.i * r.i)
         [] op = "/=" -> IF r.i = 0 THEN ErrV ELSE IntV(TruncDiv(l.i, r.i))
         [] op = "%=" -> IF r.i = 0 THEN ErrV ELSE IntV(TruncMod(l.i, r.i))
         [] OTHER     -> UnspecV

(* INTEGER op= FLOAT (the operand must be a variable - a FLOAT literal is not accepted for an INTEGER target).       *)
(* CONVERSION ORDER taken as the requirement:                                                                          *)
(*   =  +=  -=  %=   the operand is first converted to the type of the target by the one documented FLOAT -> INTEGER  *)
(*                   conversion (truncation toward zero, as for `=`), then the operator is applied in INTEGER.  Why:  *)
(*                   an assignment operator is typed by its target; with this order `i -= f` and `i += -f` agree for  *)
(*                   every sign combination (10 += -2.5 is 8, -10 += 2.5 is -8) and integers beyond 2^53 stay exact -  *)
(*                   computing the sum in binary64 and truncating it afterwards has neither property.                  *)
(*   *=  /=          scaling: the exact rational product / quotient, then truncated toward zero.  Why: the purpose of *)
(*                   a FLOAT factor is a fraction (i *= 0.5 halves; truncating the factor first would annihilate the   *)
(*                   value and turn i /= 0.5 into a division by zero); the same rule scales RTIME by a FLOAT.          *)
(*                   Defined here only where the exact result is representable (|i| < 2^15).                          *)
(*   bitwise, shift and rotate operators take INTEGER operands only: UNSPEC.                                           *)
IntFloat(op, l, r) ==
  IF op \in {"=", "+=", "-=", "%="} THEN
       (LET t == MkInt(FTrunc(r)) IN IF Bad(t) THEN t ELSE IntInt(op, l, t))
  ELSE IF op \in {"*=", "/="} THEN
       (IF l.t = "BITS" \/ Abs(l.i) >= 32768 \/ Abs(r.n) >= 32768 THEN OorV
        ELSE IF op = "*=" THEN MkInt(TruncDiv(l.i * r.n, Pow2(r.e)))
        ELSE IF r.n = 0 THEN ErrV ELSE MkInt(TruncDiv(l.i * Pow2(r.e), r.n)))
  ELSE UnspecV

IntOp(op, l, r) ==
  CASE r.t \in {"INT", "BITS"} -> IntInt(op, l, r)
    [] r.t = "FLOAT"           -> IntFloat(op, l, r)
    [] OTHER                   -> UnspecV

FloatOp(op, l, r) ==
  IF ~IsNum(r) THEN (IF r.t = "BITS" THEN OorV ELSE UnspecV)
  ELSE LET b == AsF(r) IN
       IF Bad(b) THEN b
       ELSE CASE op = "="  -> b
              [] op = "+=" -> FAdd(l, b)
              [] op = "-=" -> FSub(l, b)
              [] op = "*=" -> FMul(l, b)
              [] op = "/=" -> FDiv(l, b)
              [] OTHER     -> UnspecV

RTimeOp(op, l, r) ==
  IF l.t = "RTIMEX" \/ r.t = "RTIMEX" THEN (IF op = "=" /\ r.t = "RTIMEX" THEN r ELSE OorV) ELSE
  CASE op \in {"=", "+=", "-="} ->
         \* an INTEGER operand (a variable) counts seconds: converted to the target type first, as for INTEGER targets;
         \* FLOAT operands of the additive operators are left unspecified (falco's `=` and `+=` disagree about the unit)
         IF r.t = "INT" THEN (IF Abs(r.i) >= 500000 THEN OorV
                              ELSE MkRTime(IF op = "=" THEN r.i * 1000 ELSE IF op = "+=" THEN l.ms + r.i * 1000 ELSE l.ms - r.i * 1000))
         ELSE IF r.t # "RTIME" THEN (IF r.t = "BITS" THEN OorV ELSE UnspecV)
         ELSE MkRTime(IF op = "=" THEN r.ms ELSE IF op = "+=" THEN l.ms + r.ms ELSE l.ms - r.ms)
    [] op = "*=" ->
         IF r.t = "INT" THEN (IF Abs(l.ms) >= 32768 * 16 \/ Abs(r.i) >= 2048 THEN OorV ELSE MkRTime(l.ms * r.i))
         ELSE IF r.t = "FLOAT" THEN
              (IF Abs(l.ms) >= 32768 * 16 \/ Abs(r.n) >= 2048 THEN OorV
               ELSE IF (l.ms * r.n) % Pow2(r.e) # 0 THEN DivX(Abs(l.ms * r.n), Pow2(r.e), (l.ms < 0) # (r.n < 0))
               ELSE MkRTime((l.ms * r.n) \div Pow2(r.e)))
         ELSE UnspecV
    [] op = "/=" ->
         IF r.t = "INT" THEN (IF r.i = 0 THEN ErrV
                              ELSE IF l.ms % Abs(r.i) # 0 THEN (IF Abs(r.i) > 2000 \/ Abs(l.ms) >= Lim THEN OorV
                                                                ELSE DivX(Abs(l.ms), Abs(r.i), (l.ms < 0) # (r.i < 0)))
                              ELSE MkRTime(TruncDiv(l.ms, r.i)))
         ELSE IF r.t = "FLOAT" THEN
              (IF r.n = 0 THEN ErrV
               ELSE IF Abs(l.ms) >= 32768 * 256 THEN OorV
               ELSE IF (l.ms * Pow2(r.e)) % Abs(r.n) # 0 THEN (IF Abs(r.n) > 2000 THEN OorV
                                                                ELSE DivX(Abs(l.ms) * Pow2(r.e), Abs(r.n), (l.ms < 0) # (r.n < 0)))
               ELSE MkRTime(TruncDiv(l.ms * Pow2(r.e), r.n)))
         ELSE UnspecV
    [] OTHER -> UnspecV

BoolOp(op, l, r) ==
  IF r.t # "BOOL" THEN UnspecV
  ELSE CASE op = "="   -> r
         [] op = "&&=" -> BoolV(l.b /\ r.b)
         [] op = "||=" -> BoolV(l.b \/ r.b)
         [] OTHER      -> UnspecV

\* STRING local: a not-set right-hand side is read as the empty string, the local is set afterwards.
\* header: assigning a not-set string leaves the header not set.
StrOp(op, l, r, isHdr) ==
  IF r.t = "BITS" THEN OorV
  ELSE IF op = "=" THEN
       (IF r.t = "STR" THEN (IF r.set THEN r ELSE IF isHdr THEN NotSetV ELSE StrV(<<>>))
        ELSE StrV(ToChars(r, "other")))
  ELSE IF op = "+=" THEN
       \* appending: the current value (nothing if not set) followed by the operand;
       \* appending a not-set operand is not described by the reference
       (IF r.t = "STR" /\ ~r.set THEN UnspecV ELSE StrV((IF l.set THEN l.cs ELSE <<>>) \o ToChars(r, "other")))
  ELSE UnspecV

Apply(vt, op, l, r, isHdr) ==
  CASE vt = "INTEGER" -> IntOp(op, l, r)
    [] vt = "FLOAT"   -> FloatOp(op, l, r)
    [] vt = "RTIME"   -> RTimeOp(op, l, r)
    [] vt = "BOOL"    -> BoolOp(op, l, r)
    [] vt = "STRING"  -> StrOp(op, l, r, isHdr)

-----------------------------------------------------------------------------
(* THE VARIABLE POOL *)
Locals == [ i1 |-> "INTEGER", i2 |-> "INTEGER", f1 |-> "FLOAT", f2 |-> "FLOAT", s1 |-> "STRING", s2 |-> "STRING",
            b1 |-> "BOOL", b2 |-> "BOOL", r1 |-> "RTIME", r2 |-> "RTIME" ]
LocalNames == DOMAIN Locals
\* abstract header names; the replayer maps them to headers of the HTTP objects visible in the scope:
\*   recv: h1 = req.http.VA  h2 = req.http.VB        fetch: h1 = bereq.http.VA  h2 = beresp.http.VA
\*   deliver: h1 = req.http.VA  h2 = resp.http.VA    error: h1 = req.http.VA  h2 = obj.http.VA
HdrNames == {"h1", "h2"}
Scopes == {"recv", "fetch", "deliver", "error"}
Names == LocalNames \cup HdrNames \cup {"g0"}          \* g0 = re.group.0
IsHdr(n) == n \in HdrNames
TypeOf(n) == IF n \in LocalNames THEN Locals[n] ELSE "STRING"
Default(vt) == CASE vt = "INTEGER" -> IntV(0) [] vt = "FLOAT" -> FloatV(0, 0) [] vt = "BOOL" -> BoolV(FALSE)
                 [] vt = "RTIME" -> RTimeV(0) [] vt = "STRING" -> NotSetV
Store0 == [n \in Names |-> IF n \in LocalNames THEN Undecl ELSE NotSetV]

-----------------------------------------------------------------------------
(* STATEMENTS.  A machine state is [S: store, logs: sequence of lines, st: status]. *)
(* status: "ok" | "err" (reported runtime error) | "unspec" | "oor"                 *)
StatusOf(v) == CASE v.t = "ERR" -> "err" [] v.t = "UNSPEC" -> "unspec" [] v.t = "OOR" -> "oor"
Fail(M, v) == [M EXCEPT !.st = StatusOf(v)]

RECURSIVE ExecSeq(_, _), Exec(_, _), ExecIf(_, _, _), ExecCase(_, _, _, _)

ExecSeq(ss, M) == IF Len(ss) = 0 \/ M.st # "ok" THEN M ELSE ExecSeq(Tail(ss), Exec(Head(ss), M))

\* arms: <<[c, body]>> ; els: sequence of statements, executed when no arm is taken
ExecIf(s, i, M) ==
  IF i > Len(s.arms) THEN ExecSeq(s.els, M)
  ELSE LET c == Ev(s.arms[i].c, M.S, "other") IN
       IF Bad(c.v) THEN Fail(M, c.v)
       ELSE LET b  == Truth(c.v)
                M1 == [M EXCEPT !.S = SetG(M.S, c.g)] IN
            IF Bad(b) THEN Fail(M, b)
            ELSE IF b.b THEN ExecSeq(s.arms[i].body, M1)
            ELSE ExecIf(s, i + 1, M1)

\* cases: <<[dflt: BOOLEAN, re: BOOLEAN, lit: chars, pat: regex, body, ft: BOOLEAN]>>
\*   dflt -> `default:` ; re -> `case ~ "pat":` ; otherwise `case "lit":`
CaseMatches(c, ctl) == IF c.re THEN ReMatch(c.pat, ctl) ELSE ctl = c.lit
\* first matching non-default case in source order, else the default, else nothing;
\* fallthrough continues into the next case body
ExecCase(s, i, M, ctl) ==
  LET M1 == ExecSeq(s.cases[i].body, M) IN
  IF M1.st = "ok" /\ s.cases[i].ft /\ i < Len(s.cases) THEN ExecCase(s, i + 1, M1, ctl) ELSE M1

Exec(s, M) ==
  CASE s.k = "declall" -> [M EXCEPT !.S = [n \in Names |-> IF n \in LocalNames THEN Default(Locals[n]) ELSE M.S[n]]]
    [] s.k = "set" ->
         LET isH == IsHdr(s.tgt)
             r   == Ev(s.e, M.S, IF isH THEN "other" ELSE "local") IN
         IF M.S[s.tgt].t = "UNDECL" THEN Fail(M, ErrV)
         ELSE IF Bad(r.v) THEN Fail(M, r.v)
         ELSE LET nv == Apply(TypeOf(s.tgt), s.op, M.S[s.tgt], r.v, isH) IN
              IF Bad(nv) THEN Fail(M, nv)
              ELSE [M EXCEPT !.S = [SetG(M.S, r.g) EXCEPT ![s.tgt] = nv]]
    [] s.k = "unset" -> [M EXCEPT !.S = [M.S EXCEPT ![s.tgt] = NotSetV]]
    [] s.k = "log" ->
         LET r == Ev(s.e, M.S, "other") IN
         IF Bad(r.v) THEN Fail(M, r.v)
         ELSE IF r.v.t = "BITS" THEN Fail(M, OorV)
         ELSE [M EXCEPT !.S = SetG(M.S, r.g), !.logs = Append(M.logs, ToChars(r.v, "other"))]
    [] s.k = "if" -> ExecIf(s, 1, M)
    [] s.k = "switch" ->
         LET c == Ev(s.ctl, M.S, "other") IN
         IF Bad(c.v) THEN Fail(M, c.v)
         ELSE IF c.v.t # "STR" \/ ~c.v.set THEN Fail(M, UnspecV)     \* a not-set control: the reference is silent
         ELSE LET hits == {i \in 1..Len(s.cases) : ~s.cases[i].dflt /\ CaseMatches(s.cases[i], c.v.cs)}
                  dfl  == {i \in 1..Len(s.cases) : s.cases[i].dflt} IN
              IF hits # {} THEN
                   LET i == CHOOSE x \in hits : \A y \in hits : x <= y IN
                   \* a matching `case ~ re` is a successful match
                   ExecCase(s, i, [M EXCEPT !.S = IF s.cases[i].re
                                                  THEN SetG(M.S, [has |-> TRUE, cs |-> s.cases[i].pat.lit]) ELSE M.S], c.v.cs)
              ELSE IF dfl # {} THEN ExecCase(s, CHOOSE x \in dfl : TRUE, M, c.v.cs)
              ELSE M

M0 == [S |-> Store0, logs |-> <<>>, st |-> "ok"]

\* expected observation after each top-level statement
RECURSIVE Run(_, _)
Run(ss, M) == IF Len(ss) = 0 \/ M.st # "ok" THEN <<>>
              ELSE LET M1 == Exec(Head(ss), M) IN <<M1>> \o Run(Tail(ss), M1)

-----------------------------------------------------------------------------
(* LAWS the evaluator itself must satisfy (checked by TLC on every value    *)
(* pair of the cell enumeration): duality of the comparison operators.      *)
LawVals == << IntV(-7), IntV(-1), IntV(0), IntV(1), IntV(2), IntV(63), FloatV(-3, 1), FloatV(0, 0), FloatV(1, 1), FloatV(3, 1),
              RTimeV(0), RTimeV(500), RTimeV(999), RTimeV(1000), RTimeV(1500), RTimeV(2000), RTimeV(2500), RTimeV(-1500), FloatV(5, 1), StrV(<<>>), StrV(<<"a">>), StrV(<<"a", "b">>), NotSetV, BoolV(TRUE), BoolV(FALSE) >>
Dual(op) == CASE op = "<" -> ">" [] op = ">" -> "<" [] op = "<=" -> ">=" [] op = ">=" -> "<="
Laws ==
  \A ia \in 1..Len(LawVals), ib \in 1..Len(LawVals) :
   LET a == LawVals[ia]  b == LawVals[ib] IN
    /\ \A op \in {"<", ">", "<=", ">="} :
         LET x == Compare(op, a, b)  y == Compare(Dual(op), b, a) IN
         (~Bad(x) /\ ~Bad(y)) => x = y
    /\ LET x == Compare("==", a, b)  y == Compare("!=", a, b) IN (~Bad(x) /\ ~Bad(y)) => (x.b = ~y.b)
    /\ LET x == Compare("<", a, b)  y == Compare(">=", a, b) IN (~Bad(x) /\ ~Bad(y)) => (x.b = ~y.b)
\* a shift by n is n shifts by one; in particular x >>= 64 is (x >>= 63) >>= 1
ShiftSamples == <<Bits(0), Bits(1), Bits(5), Bits(-1), Bits(-7), Bits(-64), MinBits, Flip(MinBits)>>
ShiftLaws ==
  \A i \in 1..Len(ShiftSamples) :
    LET x == ShiftSamples[i] IN
    /\ Sar(x, 64) = Sar(Sar(x, 63), 1) /\ Shl(x, 64) = Shl(Shl(x, 63), 1)
    /\ \A k \in {1, 5, 63} : Sar(x, k + 1) = Sar(Sar(x, k), 1) /\ Shl(x, k + 1) = Shl(Shl(x, k), 1) /\ Rol(x, (k + 1) % 64) = Rol(Rol(x, k), 1)
    /\ Rol(x, 65 % 64) = Rol(x, 1) /\ Ror(Rol(x, 7), 7) = x
ReLaws ==
  \A s \in {<<>>, <<"a">>, <<"a", "b">>, <<"b", "a", "b">>} :
    \A re \in [a : BOOLEAN, z : BOOLEAN, lit : {<<>>, <<"a">>, <<"a", "b">>, <<"b">>}] :
      LET S == [Store0 EXCEPT !["h1"] = StrV(s)]
          m == Ev([k |-> "match", neg |-> FALSE, l |-> [k |-> "id", name |-> "h1"], rx |-> re], S, "other")
          n == Ev([k |-> "match", neg |-> TRUE, l |-> [k |-> "id", name |-> "h1"], rx |-> re], S, "other") IN
      m.v.b = ~n.v.b /\ m.g = n.g

=============================================================================
