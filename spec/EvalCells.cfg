SPECIFICATION Spec
CONSTANTS
  Mode = "cells"
  SimLen = 0
  NParts = 1
INVARIANTS
  EmitInv
CHECK_DEADLOCK FALSE
