------------------------------- MODULE EvalGen -------------------------------
(***************************************************************************)
(* Program enumeration for Eval.tla (property C07) and emission of the     *)
(* expected observations for the replayer.                                 *)
(*                                                                         *)
(*   Mode "cells"   all one-step cells: assignment operator x target kind  *)
(*                  x operand shape x operand value x prepared store        *)
(*   Mode "shapes"  every if / else-if / else shape of <= 3 arms over a     *)
(*                  pool of conditions of every kind, every switch of <= 3  *)
(*                  cases x default position x fallthrough x control value, *)
(*                  and every ordered pair of statement kinds               *)
(*   Mode "sim"     seeded random programs from a type-directed generator   *)
(*                  (run with -simulate; RandomElement follows -seed)       *)
(*                                                                         *)
(* A program is [scope, stmts]; stmts[1] is always "declall" (declare every *)
(* local of the pool).  The behaviour emitted for a program is the program  *)
(* plus Run(stmts, M0): status, store and log lines after every top-level   *)
(* statement, all computed by the reference evaluator.                      *)
(***************************************************************************)
EXTENDS Eval

CONSTANTS Mode,     \* "cells" | "shapes" | "sim"
          SimLen,   \* top-level statements per simulated program
          NParts    \* cells / shapes are enumerated in NParts slices, one TLC state each, so that workers share the work

-----------------------------------------------------------------------------
(* constructors *)
Id(n)          == [k |-> "id", name |-> n]
ILit(n)        == [k |-> "int", iv |-> n]
FLit(n, e)     == [k |-> "float", fn |-> n, fe |-> e]
SLit(cs)       == [k |-> "str", cs |-> cs]
BLit(b)        == [k |-> "bool", bv |-> b]
RLit(ms)       == [k |-> "rtime", ms |-> ms]
Neg(e)         == [k |-> "neg", e |-> e]
Not(e)         == [k |-> "not", e |-> e]
Grp(e)         == [k |-> "grp", e |-> e]
Cmp(op, l, r)  == [k |-> "cmp", op |-> op, l |-> l, r |-> r]
And(l, r)      == [k |-> "and", l |-> l, r |-> r]
Or(l, r)       == [k |-> "or", l |-> l, r |-> r]
Re(a, lit, z)  == [a |-> a, z |-> z, lit |-> lit]
Match(l, re)   == [k |-> "match", neg |-> FALSE, l |-> l, rx |-> re]
NMatch(l, re)  == [k |-> "match", neg |-> TRUE, l |-> l, rx |-> re]
Cat(ps)        == [k |-> "cat", parts |-> ps]
Ifx(c, a, b)   == [k |-> "ifx", c |-> c, th |-> a, el |-> b]
Set(t, op, e)  == [k |-> "set", tgt |-> t, op |-> op, e |-> e]
Unset(t)       == [k |-> "unset", tgt |-> t]
Log(e)         == [k |-> "log", e |-> e]
If(arms, els)  == [k |-> "if", arms |-> arms, els |-> els]
Arm(c, body)   == [c |-> c, body |-> body]
Switch(ctl, cases) == [k |-> "switch", ctl |-> ctl, cases |-> cases]
NoRe == Re(FALSE, <<>>, FALSE)
CaseLit(lit, body, ft) == [dflt |-> FALSE, re |-> FALSE, lit |-> lit, pat |-> NoRe, body |-> body, ft |-> ft]
CaseRe(pat, body, ft)  == [dflt |-> FALSE, re |-> TRUE, lit |-> <<>>, pat |-> pat, body |-> body, ft |-> ft]
CaseDflt(body, ft)     == [dflt |-> TRUE, re |-> FALSE, lit |-> <<>>, pat |-> NoRe, body |-> body, ft |-> ft]
DeclAll == [k |-> "declall"]
Prog(scope, tag, setup, ss) == [scope |-> scope, tag |-> tag, stmts |-> <<DeclAll>> \o setup \o ss]
\* a program whose requirement is a LAW between result variables (their individual values are left open by the reference):
\* tag "dual..." - the replayer does not compare b1 and b2 with the model but demands b1 = b2 at the end
Opd(setup, e) == [setup |-> setup, e |-> e]        \* an operand: expression + the statements that prepare its variables

A == <<"a">>
AB == <<"a", "b">>
B == <<"b">>
E == <<>>

-----------------------------------------------------------------------------
(* ONE-STEP CELLS *)
IntOps == {"=", "+=", "-=", "*=", "/=", "%=", "|=", "&=", "^=", "<<=", ">>=", "rol=", "ror="}
IntLeftN == {0, 1, 2, 5, 7, 63, 64, 1000, -1, -2, -7, -64}
\* prepared left values, incl. values beyond 32 bits built with shifts: 2^62, -2^63, 2^63-1 (as not(-2^63)), -2^62-... etc.
IntLefts == {<<Set("i1", "=", ILit(n))>> : n \in IntLeftN} \cup
            { <<Set("i1", "=", ILit(1)), Set("i1", "<<=", ILit(62))>>,
              <<Set("i1", "=", ILit(1)), Set("i1", "<<=", ILit(63))>>,
              <<Set("i1", "=", ILit(1)), Set("i1", "<<=", ILit(63)), Set("i1", "^=", ILit(-1))>>,
              <<Set("i1", "=", ILit(-1)), Set("i1", "<<=", ILit(40))>>,
              <<Set("i1", "=", ILit(5)), Set("i1", "ror=", ILit(2))>> }
IntRightN == {0, 1, 2, 3, 5, 63, 64, 65, 127, 128, -1, -3}
IntRights == {Opd(<<>>, ILit(n)) : n \in IntRightN} \cup
             {Opd(<<Set("i2", "=", ILit(n))>>, Id("i2")) : n \in IntRightN} \cup
             {Opd(<<Set("i2", "=", ILit(n))>>, Neg(Id("i2"))) : n \in {0, 3, -1}} \cup
             {Opd(<<Set("i2", "=", ILit(1)), Set("i2", "<<=", ILit(40))>>, Id("i2"))}
IntCells == {Prog("recv", "int", l \o r.setup, <<Set("i1", op, r.e)>>) : l \in IntLefts, op \in IntOps, r \in IntRights} \cup
            \* FLOAT -> INTEGER conversion (only from a variable)
            {Prog("recv", "int-from-float", <<Set("i1", "=", ILit(7)), Set("f1", "=", FLit(n, 2))>>, <<Set("i1", "=", Id("f1"))>>)
               : n \in {0, 1, 5, 6, 7, -1, -5, -6, -7, 400}}

FloatOps == {"=", "+=", "-=", "*=", "/="}
FloatLefts == {<<Set("f1", "=", FLit(n, 2))>> : n \in {0, 6, -9, 12, 2, 401}}        \* 0 1.5 -2.25 3 0.5 100.25
FloatRights == {Opd(<<>>, FLit(n, 2)) : n \in {0, 2, 6, -8, 16, 1}} \cup
               {Opd(<<Set("f2", "=", FLit(n, 2))>>, Id("f2")) : n \in {0, 2, 6, -8, 16, 1}} \cup
               {Opd(<<Set("f2", "=", FLit(6, 2))>>, Neg(Id("f2")))} \cup
               {Opd(<<>>, ILit(n)) : n \in {0, 1, 2, -3, 8}} \cup
               {Opd(<<Set("i1", "=", ILit(n))>>, Id("i1")) : n \in {0, 1, 2, -3, 8}}
FloatCells == {Prog("recv", "float", l \o r.setup, <<Set("f1", op, r.e)>>) : l \in FloatLefts, op \in FloatOps, r \in FloatRights}

RTimeLefts == {<<Set("r1", "=", RLit(n))>> : n \in {0, 1000, 1500, 90000, -2000}}
RTimeAddRights == {Opd(<<>>, RLit(n)) : n \in {0, 1000, 500, 120000}} \cup
                  {Opd(<<Set("r2", "=", RLit(n))>>, Id("r2")) : n \in {0, 1000, 500, 120000}} \cup
                  {Opd(<<Set("r2", "=", RLit(1500))>>, Neg(Id("r2")))}
RTimeMulRights == {Opd(<<>>, ILit(n)) : n \in {0, 1, 2, -3, 60}} \cup
                  {Opd(<<Set("i1", "=", ILit(n))>>, Id("i1")) : n \in {0, 1, 2, -3, 60}} \cup
                  {Opd(<<>>, FLit(n, 2)) : n \in {0, 2, 6, 8, -1}} \cup
                  {Opd(<<Set("f1", "=", FLit(n, 2))>>, Id("f1")) : n \in {0, 2, 6, 8, -1}}
RTimeCells == {Prog("recv", "rtime", l \o r.setup, <<Set("r1", op, r.e)>>) : l \in RTimeLefts, op \in {"=", "+=", "-="}, r \in RTimeAddRights} \cup
              {Prog("recv", "rtime", l \o r.setup, <<Set("r1", op, r.e)>>) : l \in RTimeLefts, op \in {"*=", "/="}, r \in RTimeMulRights}

\* CROSS-TYPE arithmetic: INTEGER target x FLOAT operand, FLOAT target x INTEGER operand, RTIME x INTEGER / FLOAT, with
\* fractional operands +-0.5, +-1.5, +-2.5 in every sign combination and integers beyond 2^53 (conversion order, see Eval.tla)
XIntLefts == {<<Set("i1", "=", ILit(n))>> : n \in {10, -10, 0, 7, -7, 1}} \cup
             { <<Set("i1", "=", ILit(1)), Set("i1", "<<=", ILit(53)), Set("i1", "+=", ILit(1))>>,       \* 2^53 + 1
               <<Set("i1", "=", ILit(-1)), Set("i1", "<<=", ILit(53)), Set("i1", "-=", ILit(1))>> }     \* -(2^53 + 1)
XFloatRights == {Opd(<<Set("f2", "=", FLit(n, 1))>>, Id("f2")) : n \in {1, -1, 3, -3, 5, -5, 0, 4}} \cup
                {Opd(<<Set("f2", "=", FLit(n, 1))>>, Neg(Id("f2"))) : n \in {3, -5}}
XIntCells == {Prog("recv", "int-x-float", l \o r.setup, <<Set("i1", op, r.e)>>)
                : l \in XIntLefts, op \in {"=", "+=", "-=", "*=", "/=", "%="}, r \in XFloatRights}
XFloatCells == {Prog("recv", "float-x-int", <<Set("f1", "=", FLit(l, 1))>> \o r.setup, <<Set("f1", op, r.e)>>)
                  : l \in {5, -5, 1, -3, 0}, op \in FloatOps,
                    r \in {Opd(<<>>, ILit(n)) : n \in {3, -3, 1, -1, 0}} \cup {Opd(<<Set("i2", "=", ILit(n))>>, Id("i2")) : n \in {3, -3, 1, -1, 0}}}
XRTimeCells == {Prog("recv", "rtime-x", <<Set("r1", "=", RLit(l)), Set("i2", "=", ILit(n))>>, <<Set("r1", op, Id("i2"))>>)
                  : l \in {1500, -2000, 90000}, op \in {"=", "+=", "-="}, n \in {0, 2, -3, 60}} \cup
               {Prog("recv", "rtime-x", <<Set("r1", "=", RLit(l))>> \o r.setup, <<Set("r1", op, r.e)>>)
                  : l \in {1500, -2000, 90000}, op \in {"*=", "/="},
                    r \in {Opd(<<>>, FLit(n, 1)) : n \in {1, -1, 3, -3, 5, -5}} \cup {Opd(<<Set("f2", "=", FLit(n, 1))>>, Id("f2")) : n \in {1, -1, 3, -3, 5, -5}} \cup
                          {Opd(<<Set("i2", "=", ILit(n))>>, Id("i2")) : n \in {2, -3}}}
\* RTIME comparisons with sub-second parts (incl. results of /=), every operator, literal and variable right operand
SubSec == {500, 999, 1000, 1500, 2500, -1500}
RTimeCmpCells ==
  {Prog("recv", "rtime-cmp", <<Set("r1", "=", RLit(a))>> \o r.setup, <<Set("b1", "=", Grp(Cmp(op, Id("r1"), r.e)))>>)
     : a \in SubSec, op \in {"==", "!=", "<", ">", "<=", ">="},
       r \in {Opd(<<>>, RLit(b)) : b \in SubSec} \cup {Opd(<<Set("r2", "=", RLit(b))>>, Id("r2")) : b \in SubSec} \cup
              {Opd(<<Set("r2", "=", RLit(1000)), Set("r2", "/=", ILit(2))>>, Id("r2")), Opd(<<Set("r2", "=", RLit(3000)), Set("r2", "/=", FLit(3, 1))>>, Id("r2"))}}
\* DUALITY over mixed types: r op n and n dual(op) r must agree whatever resolution the comparison uses
DualOp(op) == CASE op = "<" -> ">" [] op = ">" -> "<" [] op = "<=" -> ">=" [] op = ">=" -> "<="
DualCells ==
  {Prog("recv", "dual", <<Set("r1", "=", RLit(a))>> \o n.setup,
        <<Set("b1", "=", Grp(Cmp(op, Id("r1"), n.e))), Set("b2", "=", Grp(Cmp(DualOp(op), n.e, Id("r1"))))>>)
     : a \in SubSec \cup {2000, 0}, op \in {"<", ">", "<=", ">="},
       n \in {Opd(<<Set("i1", "=", ILit(x))>>, Id("i1")) : x \in {0, 1, 2, 3, -1, -2}} \cup
              {Opd(<<Set("f1", "=", FLit(x, 1))>>, Id("f1")) : x \in {1, 2, 3, 5, -3, 4}}} \cup
  \* same-type controls of the same shape (here the values are compared as well)
  {Prog("recv", "dual-same", <<Set("r1", "=", RLit(a)), Set("r2", "=", RLit(b))>>,
        <<Set("b1", "=", Grp(Cmp(op, Id("r1"), Id("r2")))), Set("b2", "=", Grp(Cmp(DualOp(op), Id("r2"), Id("r1"))))>>)
     : a \in SubSec, b \in SubSec, op \in {"<", ">", "<=", ">="}}
\* COMPUTED durations with a part finer than a millisecond (no literal can express them), then every observation:
\* STRING = RTIME, header = RTIME, concatenation, +=, log, copy + negation, ordering against the neighbouring
\* whole-millisecond literals (== / != against them is UNSPEC: emitted, only totality is observed)
XMake == { <<Set("r1", "=", RLit(2000)), Set("r1", "/=", ILit(3))>>,      \* 666.666.. ms
           <<Set("r1", "=", RLit(1000)), Set("r1", "/=", ILit(7))>>,      \* 142.857.. ms
           <<Set("r1", "=", RLit(10)), Set("r1", "/=", ILit(3))>>,        \* 3.333.. ms
           <<Set("r1", "=", RLit(1)), Set("r1", "*=", FLit(1, 1))>>,      \* 0.5 ms
           <<Set("r1", "=", RLit(5)), Set("r1", "*=", FLit(1, 2))>>,      \* 1.25 ms
           <<Set("r1", "=", RLit(1000)), Set("r1", "/=", FLit(3, 1))>>,   \* 666.666.. ms (FLOAT divisor 1.5)
           <<Set("r1", "=", RLit(-2000)), Set("r1", "/=", ILit(3))>>,     \* -666.666.. ms
           <<Set("r1", "=", RLit(2000)), Set("r1", "/=", ILit(-3))>>,
           <<Set("r1", "=", RLit(-1)), Set("r1", "*=", FLit(1, 1))>>,     \* -0.5 ms
           <<Set("r1", "=", RLit(2000)), Set("r1", "/=", ILit(3)), Set("r2", "=", Neg(Id("r1"))), Set("r1", "=", Id("r2"))>>,
           <<Set("r1", "=", RLit(1999)), Set("r1", "/=", ILit(2))>> }      \* 999.5 ms: the rounding boundary of the seconds digit
XObserve == { Set("s1", "=", Id("r1")), Set("h1", "=", Id("r1")), Set("s1", "=", Cat(<<SLit(A), Id("r1"), SLit(B)>>)),
              Set("h1", "=", Cat(<<Id("r1"), SLit(<<" ">>), Id("r1")>>)), Set("s2", "+=", Id("r1")), Log(Id("r1")), Log(Cat(<<SLit(A), Id("r1")>>)),
              Set("r2", "=", Id("r1")) } \cup
            { Set("b1", "=", Grp(Cmp(op, Id("r1"), RLit(n)))) : op \in {"<", ">", "<=", ">=", "==", "!="}, n \in {666, 667, 142, 143, 3, 4, 0, 1, -666, -667, 999, 1000} }
XSubMsCells == {Prog("recv", "rtime-subms", mk, <<o, Set("s2", "=", Id("r1"))>>) : mk \in XMake, o \in XObserve}

\* INTEGER comparisons between neighbours beyond 2^53 and at the ends of int64 (values given as 64-bit patterns)
P53 == Shl(Bits(1), 53)
MaxBits == Flip(MinBits)
BigVals == { P53, BitsAdd(P53, Bits(1)), BitsAdd(P53, Bits(2)), BitsNeg(P53), BitsNeg(BitsAdd(P53, Bits(1))),
             MaxBits, BitsAdd(MaxBits, Bits(-1)), MinBits, BitsAdd(MinBits, Bits(1)), Bits(0), Bits(1), Bits(-1) }
BigLit(bs) == [k |-> "bits", bits |-> bs]
BigCmpCells ==
  {Prog("recv", "bigint-cmp", <<Set("i1", "=", BigLit(a))>> \o r.setup, <<Set("b1", "=", Grp(Cmp(op, Id("i1"), r.e)))>>)
     : a \in BigVals, op \in {"==", "!=", "<", ">", "<=", ">="},
       r \in {Opd(<<>>, BigLit(b)) : b \in BigVals} \cup {Opd(<<Set("i2", "=", BigLit(b))>>, Id("i2")) : b \in BigVals}} \cup
  {Prog("recv", "dual-same", <<Set("i1", "=", BigLit(a)), Set("i2", "=", BigLit(b))>>,
        <<Set("b1", "=", Grp(Cmp(op, Id("i1"), Id("i2")))), Set("b2", "=", Grp(Cmp(DualOp(op), Id("i2"), Id("i1"))))>>)
     : a \in BigVals, b \in BigVals, op \in {"<", ">", "<=", ">="}}
CrossCells == XIntCells \cup XFloatCells \cup XRTimeCells \cup RTimeCmpCells \cup DualCells \cup XSubMsCells \cup BigCmpCells

\* a prepared store on which conditions of every kind have a known value (computed by the evaluator, not assumed here)
CondStore == << Set("b1", "=", BLit(TRUE)), Set("s1", "=", SLit(A)), Set("h1", "=", SLit(E)), Set("i1", "=", ILit(5)),
                Set("f1", "=", FLit(3, 1)), Set("r1", "=", RLit(90000)) >>
CondPool == { Id("b1"), Id("b2"), Id("s1"), Id("s2"), Id("h1"), Id("h2"), Not(Id("b1")), Not(Id("s2")), Not(Id("h1")),
              Cmp("==", Id("s1"), SLit(A)), Cmp("!=", Id("s1"), SLit(A)), Cmp("==", Id("s2"), SLit(E)), Cmp("!=", Id("s2"), SLit(E)),
              Cmp("==", Id("h1"), SLit(E)), Cmp("==", Id("h2"), Id("s2")), Cmp("==", Id("s1"), Id("h1")),
              Cmp(">", Id("i1"), ILit(3)), Cmp("<", Id("i1"), ILit(3)), Cmp(">=", Id("i1"), ILit(5)), Cmp("<=", Id("i1"), ILit(4)),
              Cmp("==", Id("i1"), ILit(5)), Cmp("!=", Id("i1"), Id("i2")),
              Cmp("<=", Id("f1"), FLit(3, 1)), Cmp(">", Id("f1"), ILit(1)), Cmp("<", Id("f1"), ILit(1)), Cmp("==", Id("f1"), FLit(3, 1)),
              Cmp(">=", Id("r1"), RLit(120000)), Cmp("<", Id("r1"), RLit(120000)), Cmp("==", Id("r1"), RLit(90000)),
              Cmp("==", Id("b1"), BLit(TRUE)), Cmp("!=", Id("b1"), Id("b2")),
              Match(Id("s1"), Re(TRUE, A, FALSE)), NMatch(Id("s1"), Re(FALSE, A, FALSE)), Match(Id("s1"), Re(FALSE, B, TRUE)),
              Match(Id("s2"), Re(FALSE, E, FALSE)), Match(Id("h2"), Re(TRUE, A, TRUE)),
              And(Id("b1"), Id("s1")), And(Id("b1"), Id("s2")), Or(Id("b2"), Id("h2")), Or(Id("b2"), Id("h1")),
              And(Cmp(">", Id("i1"), ILit(3)), Not(Id("s2"))), Or(Not(Id("b1")), Cmp("==", Id("s1"), SLit(B))),
              Grp(Or(Id("b2"), Id("b1"))), Not(Grp(And(Id("b1"), Id("s1")))) }

BoolRights == {Opd(<<>>, BLit(b)) : b \in BOOLEAN} \cup {Opd(<<Set("b2", "=", BLit(b))>>, Id("b2")) : b \in BOOLEAN} \cup
              {Opd(CondStore, Grp(c)) : c \in CondPool}
BoolCells == {Prog("recv", "bool", r.setup \o <<Set("b1", "=", BLit(l))>>, <<Set("b1", op, r.e)>>)
                : l \in BOOLEAN, op \in {"=", "&&=", "||="}, r \in BoolRights}

\* string-valued operands of every shape
StrSetups(n) == {<<>>, <<Set(n, "=", SLit(E))>>, <<Set(n, "=", SLit(A))>>}        \* not set / set and empty / "a"
StrRights ==
  {Opd(<<>>, SLit(cs)) : cs \in {E, A, <<"b", " ", "c">>}} \cup
  {Opd(su, Id("s2")) : su \in StrSetups("s2")} \cup
  {Opd(su, Id("h2")) : su \in StrSetups("h2")} \cup
  {Opd(<<>>, Id("g0"))} \cup
  {Opd(<<Set("i2", "=", ILit(n))>>, Id("i2")) : n \in {0, 5, -7}} \cup
  {Opd(<<Set("f2", "=", FLit(n, 3))>>, Id("f2")) : n \in {0, 12, -13, 1}} \cup
  {Opd(<<Set("f2", "=", FLit(n, 4))>>, Id("f2")) : n \in {1, 3, 9}} \cup            \* 0.0625 0.1875 0.5625: ties of the third decimal
  {Opd(<<Set("r2", "=", RLit(n))>>, Id("r2")) : n \in {0, 90000, 1500, -500}} \cup
  {Opd(<<Set("b2", "=", BLit(b))>>, Id("b2")) : b \in BOOLEAN} \cup
  {Opd(su, Cat(<<SLit(A), Id("s2")>>)) : su \in StrSetups("s2")} \cup
  {Opd(su, Cat(<<Id("s2"), SLit(B)>>)) : su \in StrSetups("s2")} \cup
  {Opd(su, Cat(<<SLit(A), Id("h2")>>)) : su \in StrSetups("h2")} \cup
  {Opd(su1 \o su2, Cat(<<Id("s2"), Id("h2")>>)) : su1 \in StrSetups("s2"), su2 \in StrSetups("h2")} \cup
  {Opd(su, Cat(<<Id("h2"), Id("h2"), Id("g0")>>)) : su \in StrSetups("h2")} \cup
  {Opd(<<Set("i2", "=", ILit(-7)), Set("f2", "=", FLit(3, 1)), Set("r2", "=", RLit(1500)), Set("b2", "=", BLit(TRUE))>>,
       Cat(<<Id("i2"), SLit(<<" ">>), Id("f2"), SLit(<<" ">>), Id("r2"), SLit(<<" ">>), Id("b2")>>))} \cup
  {Opd(<<>>, Cat(<<SLit(A), SLit(B), SLit(<<"c">>)>>))} \cup
  {Opd(<<Set("b2", "=", BLit(b))>>, Ifx(Id("b2"), SLit(<<"y">>), SLit(<<"n">>))) : b \in BOOLEAN} \cup
  {Opd(su, Ifx(Id("s2"), SLit(<<"y">>), SLit(<<"n">>))) : su \in StrSetups("s2")} \cup
  {Opd(su, Cat(<<SLit(A), Ifx(Not(Id("s2")), SLit(<<"y">>), SLit(E))>>)) : su \in StrSetups("s2")}
StrCells ==
  {Prog("recv", "str-local", l \o r.setup, <<Set("s1", op, r.e)>>) : l \in StrSetups("s1") \cup {<<Set("s1", "=", SLit(AB))>>}, op \in {"=", "+="}, r \in StrRights} \cup
  {Prog(sc, "str-header", l \o r.setup, <<Set("h1", op, r.e)>>) : sc \in Scopes, l \in StrSetups("h1"), op \in {"=", "+="}, r \in StrRights} \cup
  {Prog(sc, "unset", l, <<Unset(h)>>) : sc \in Scopes, h \in HdrNames, l \in StrSetups("h1") \cup StrSetups("h2")} \cup
  {Prog("recv", "log", r.setup, <<Log(r.e)>>) : r \in StrRights}

AllCells == IntCells \cup FloatCells \cup RTimeCells \cup BoolCells \cup StrCells \cup CrossCells

-----------------------------------------------------------------------------
(* SHAPES *)
Mark(n) == Set("s2", "+=", SLit(<<DigitCh(n)>>))        \* body n leaves its number in var.s2: the sequence of bodies run
IfShapes ==
  LET arm(i, c) == Arm(c, <<Mark(i)>>) IN
  {Prog("recv", "if", CondStore, <<If(<<arm(1, c1)>>, els), Log(Id("s2"))>>) : c1 \in CondPool, els \in {<<>>, <<Mark(9)>>}} \cup
  {Prog("recv", "if", CondStore, <<If(<<arm(1, c1), arm(2, c2)>>, els), Log(Id("s2"))>>) : c1 \in CondPool, c2 \in CondPool, els \in {<<>>, <<Mark(9)>>}}
\* three arms: the conditions are reduced to one representative per kind (the full pool is covered by the 1- and 2-arm shapes)
CondPool3 == { Id("b1"), Id("b2"), Id("s2"), Id("h1"), Not(Id("s2")), Cmp("==", Id("s1"), SLit(A)), Cmp("!=", Id("s2"), SLit(E)),
               Cmp("<", Id("i1"), ILit(3)), Match(Id("s1"), Re(TRUE, A, FALSE)), NMatch(Id("s1"), Re(FALSE, A, FALSE)),
               And(Id("b1"), Id("s2")), Or(Id("b2"), Id("h1")) }
IfShapes3 ==
  LET arm(i, c) == Arm(c, <<Mark(i)>>) IN
  {Prog("recv", "if3", CondStore, <<If(<<arm(1, c1), arm(2, c2), arm(3, c3)>>, els), Log(Id("s2"))>>)
     : c1 \in CondPool3, c2 \in CondPool3, c3 \in CondPool3, els \in {<<>>, <<Mark(9)>>}}
\* nesting: an if inside the taken / not taken arm of another, else-if inside else
IfNested ==
  {Prog("recv", "if-nested", CondStore,
        <<If(<<Arm(c1, <<Mark(1), If(<<Arm(c2, <<Mark(2)>>)>>, <<Mark(3)>>), Mark(4)>>)>>, <<If(<<Arm(c2, <<Mark(5)>>)>>, <<>>), Mark(6)>>), Log(Id("s2"))>>)
     : c1 \in CondPool3, c2 \in CondPool3}

Tests == { [re |-> FALSE, lit |-> A, pat |-> NoRe], [re |-> FALSE, lit |-> B, pat |-> NoRe], [re |-> FALSE, lit |-> E, pat |-> NoRe],
           [re |-> TRUE, lit |-> E, pat |-> Re(TRUE, A, FALSE)], [re |-> TRUE, lit |-> E, pat |-> Re(FALSE, B, TRUE)] }
MkCase(t, i, ft) == IF t.re THEN CaseRe(t.pat, <<Mark(i)>>, ft) ELSE CaseLit(t.lit, <<Mark(i)>>, ft)
\* all sequences of 1..3 distinct tests
TestSeqs == {<<t>> : t \in Tests} \cup {ts \in {<<t1, t2>> : t1 \in Tests, t2 \in Tests} : ts[1] # ts[2]} \cup
            {ts \in {<<t1, t2, t3>> : t1 \in Tests, t2 \in Tests, t3 \in Tests} : ts[1] # ts[2] /\ ts[1] # ts[3] /\ ts[2] # ts[3]}
InsertAt(s, i, x) == SubSeq(s, 1, i) \o <<x>> \o SubSeq(s, i + 1, Len(s))
\* cases with a fallthrough flag vector; the last case never falls through
CaseSeqs ==
  UNION { LET n == Len(ts) IN
          UNION { { [i \in 1..n |-> MkCase(ts[i], i, fts[i])] } \cup
                  { InsertAt([i \in 1..n |-> MkCase(ts[i], i, fts[i])], p, CaseDflt(<<Mark(8)>>, df)) : p \in 0..n, df \in BOOLEAN }
                  : fts \in [1..n -> BOOLEAN] }
          : ts \in TestSeqs }
WellFormedCases(cs) == ~cs[Len(cs)].ft
Controls == { <<Set("s1", "=", SLit(v))>> : v \in {A, B, AB, E, <<"b", "a", "b">>} }
SwitchShapes ==
  {Prog("recv", "switch", ctl, <<Switch(Id("s1"), cs), Log(Id("s2")), Log(Id("g0"))>>) : ctl \in Controls, cs \in {c \in CaseSeqs : WellFormedCases(c)}} \cup
  {Prog("recv", "switch-hdr", <<Set("h1", "=", SLit(v))>>, <<Switch(Id("h1"), cs), Log(Id("s2"))>>)
     : v \in {A, E}, cs \in {c \in CaseSeqs : WellFormedCases(c) /\ Len(c) <= 2}}

\* every ordered pair of statement kinds back to back on one store
KindReps == { Set("i1", "+=", ILit(3)), Set("i1", "<<=", Id("i2")), Set("i2", "=", Id("i1")), Set("f1", "*=", FLit(3, 1)), Set("f1", "=", Id("i1")),
              Set("i1", "=", Id("f1")), Set("r1", "+=", RLit(1500)), Set("b1", "||=", Grp(Cmp(">", Id("i1"), ILit(2)))),
              Set("s1", "=", Cat(<<Id("s2"), Id("i1"), Id("h1")>>)), Set("s2", "+=", Id("f1")), Set("s2", "=", Id("h2")),
              Set("h1", "=", Cat(<<Id("s1"), SLit(A), Id("h2")>>)), Set("h2", "=", Id("s1")), Set("h1", "+=", Id("r1")), Unset("h1"), Unset("h2"),
              Log(Cat(<<Id("h1"), SLit(<<"|">>), Id("s1"), SLit(<<"|">>), Id("b1")>>)),
              If(<<Arm(Id("h1"), <<Set("s1", "=", SLit(A))>>), Arm(Not(Id("s2")), <<Set("i2", "-=", ILit(1))>>)>>, <<Unset("h1")>>),
              If(<<Arm(Match(Id("s1"), Re(FALSE, A, FALSE)), <<Set("h2", "=", Id("g0"))>>)>>, <<Set("s1", "+=", SLit(A))>>),
              Switch(Id("s1"), <<CaseLit(A, <<Set("i1", "*=", ILit(2))>>, TRUE), CaseRe(Re(FALSE, B, TRUE), <<Set("s1", "+=", SLit(B))>>, FALSE),
                                 CaseDflt(<<Set("s1", "=", SLit(A))>>, FALSE)>>) }
PairSetup == <<Set("i1", "=", ILit(5)), Set("i2", "=", ILit(1)), Set("s1", "=", SLit(A))>>
Pairs == {Prog("recv", "pair", PairSetup, <<x, y, x>>) : x \in KindReps, y \in KindReps}

AllShapes == IfShapes \cup IfShapes3 \cup IfNested \cup SwitchShapes \cup Pairs

-----------------------------------------------------------------------------------------------------------------------------------------------------
(* RANDOM PROGRAMS (simulation mode).  Pick = TLC's RandomElement, which    *)
(* draws from the generator seeded with -seed.  Every generator operator    *)
(* takes a (dummy) argument: TLC evaluates argument-less constant operators *)
(* once and caches the result, which would freeze the random choice.        *)
Pick(S) == RandomElement(S)
Chance(k, n) == Pick(1..n) <= k

GIntVar(u) == Pick({"i1", "i2"})
\* now and then a literal beyond 2^53 / at the ends of int64 (values a float64 detour would change)
GIntLit(u) == IF Chance(1, 20) THEN BigLit(Pick(BigVals)) ELSE ILit(Pick({0, 1, 2, 3, 5, 7, 8, 63, 64, -1, -2, -7, 100, 1000}))
GShift(u)  == ILit(Pick(0..64))
GIntExp(u) == LET r == Pick(1..10) IN
              IF r <= 5 THEN GIntLit(u) ELSE IF r <= 9 THEN Id(GIntVar(u)) ELSE Neg(Id(GIntVar(u)))
GFltVar(u) == Pick({"f1", "f2"})
GFltLit(u) == FLit(Pick({0, 1, 2, 3, 4, 6, 8, 10, 12, 16, 40, -2, -6, -9}), 2)
GFltExp(u) == LET r == Pick(1..10) IN
              IF r <= 4 THEN GFltLit(u) ELSE IF r <= 7 THEN Id(GFltVar(u)) ELSE IF r <= 8 THEN Neg(Id(GFltVar(u)))
              ELSE IF r <= 9 THEN GIntLit(u) ELSE Id(GIntVar(u))
GDivisor(u) == IF Chance(1, 2) THEN FLit(Pick({1, 2, 4, 8, 16, -2, -8, 0}), 2) ELSE ILit(Pick({1, 2, 4, -2, 8, 0}))
GRtVar(u)  == Pick({"r1", "r2"})
GRtLit(u)  == RLit(Pick({0, 500, 1000, 1500, 2000, 60000, 90000, 3600000}))
GRtExp(u)  == LET r == Pick(1..10) IN IF r <= 5 THEN GRtLit(u) ELSE IF r <= 9 THEN Id(GRtVar(u)) ELSE Neg(Id(GRtVar(u)))
GStrVar(u) == Pick({"s1", "s2", "h1", "h2"})
GChars(u)  == Pick({E, A, B, AB, <<"b", "a">>, <<"a", "b", "a">>, <<"c">>, <<" ">>, <<"1">>, <<"a", " ", "b">>})
GStrLit(u) == SLit(GChars(u))
GAnyVar(u) == Pick(LocalNames \cup HdrNames \cup {"g0"})
\* the empty literal is rare on purpose: the regex engine falco uses never reports an empty match (known finding)
GRegex(u)  == Re(Chance(1, 3), IF Chance(1, 40) THEN E ELSE Pick({A, B, AB, <<"b", "a">>}), Chance(1, 3))
GBoolVar(u) == Pick({"b1", "b2"})
CmpOps == {"==", "!=", "<", ">", "<=", ">="}

\* a condition without a regular expression match
RECURSIVE GPure(_)
GPure(d) ==
  LET r == Pick(1..(IF d = 0 THEN 12 ELSE 16)) IN
  CASE r = 1  -> Id(GBoolVar(d))
    [] r = 2  -> Id(GStrVar(d))
    [] r = 3  -> Not(Id(GStrVar(d)))
    [] r = 4  -> Not(Id(GBoolVar(d)))
    [] r = 5  -> Cmp(Pick({"==", "!="}), Id(GStrVar(d)), IF Chance(2, 3) THEN GStrLit(d) ELSE Id(GStrVar(d)))
    [] r = 6  -> Cmp(Pick(CmpOps), Id(GIntVar(d)), IF Chance(1, 2) THEN GIntLit(d) ELSE Id(GIntVar(d)))
    [] r = 7  -> Cmp(Pick(CmpOps), Id(GFltVar(d)), IF Chance(1, 2) THEN GFltLit(d) ELSE IF Chance(1, 2) THEN Id(GFltVar(d)) ELSE GIntLit(d))
    [] r = 8  -> Cmp(Pick(CmpOps), Id(GRtVar(d)), IF Chance(1, 2) THEN GRtLit(d) ELSE Id(GRtVar(d)))
    [] r = 9  -> Cmp(Pick({"==", "!="}), Id(GBoolVar(d)), IF Chance(1, 2) THEN BLit(Chance(1, 2)) ELSE Id(GBoolVar(d)))
    [] r = 10 -> Cmp(Pick({"==", "!="}), Id("g0"), GStrLit(d))
    [] r = 11 -> Cmp("<", Id(GIntVar(d)), GIntLit(d))
    [] r = 12 -> Cmp("==", Id(GStrVar(d)), SLit(E))
    [] r = 13 -> And(GPure(d - 1), GPure(d - 1))
    [] r = 14 -> Or(GPure(d - 1), GPure(d - 1))
    [] r = 15 -> Not(Grp(GPure(d - 1)))
    [] r = 16 -> Grp(GPure(d - 1))
\* a condition; a match may only stand where it is certainly evaluated (whole condition or leftmost operand)
GMatch(u) == IF Chance(1, 2) THEN Match(Id(GStrVar(u)), GRegex(u)) ELSE NMatch(Id(GStrVar(u)), GRegex(u))
GCond(d) ==
  LET r == Pick(1..10) IN
  IF r <= 6 THEN GPure(d)
  ELSE IF r <= 8 THEN GMatch(d)
  ELSE IF r = 9 THEN And(GMatch(d), GPure(d))
  ELSE Or(GMatch(d), GPure(d))

GStrPart(u) == LET r == Pick(1..10) IN
               IF r <= 4 THEN GStrLit(u) ELSE IF r <= 9 THEN Id(GAnyVar(u)) ELSE Ifx(GPure(0), GStrLit(u), GStrLit(u))
GStrExp(u) == LET r == Pick(1..10) IN
              IF r <= 2 THEN GStrLit(u)
              ELSE IF r <= 5 THEN Id(GAnyVar(u))
              ELSE IF r <= 7 THEN Cat(<<GStrPart(u), GStrPart(u)>>)
              ELSE IF r <= 8 THEN Cat(<<GStrPart(u), GStrPart(u), GStrPart(u)>>)
              ELSE IF r <= 9 THEN Cat(<<Id(GStrVar(u)), Id(GStrVar(u))>>)
              ELSE Ifx(GPure(0), GStrLit(u), Id(GStrVar(u)))

GSimple(u) ==
  LET r == Pick(1..20) IN
  CASE r <= 3  -> Set(GIntVar(u), Pick({"=", "+=", "-=", "*=", "|=", "&=", "^="}), GIntExp(u))
    [] r = 4   -> Set(GIntVar(u), Pick({"/=", "%="}), IF Chance(9, 10) THEN ILit(Pick({1, 2, 3, 7, -2})) ELSE GIntExp(u))
    [] r = 5   -> Set(GIntVar(u), Pick({"<<=", ">>=", "rol=", "ror="}), GShift(u))
    [] r = 6   -> IF Chance(2, 3) THEN Set(GIntVar(u), Pick({"=", "+=", "-=", "*=", "/=", "%="}), IF Chance(4, 5) THEN Id(GFltVar(u)) ELSE Neg(Id(GFltVar(u))))
                  ELSE Set(GRtVar(u), Pick({"=", "+=", "-="}), Id(GIntVar(u)))
    [] r = 7 \/ r = 8 -> Set(GFltVar(u), Pick({"=", "+=", "-=", "*="}), GFltExp(u))
    [] r = 9   -> Set(GFltVar(u), "/=", GDivisor(u))
    [] r = 10  -> Set(GRtVar(u), Pick({"=", "+=", "-="}), GRtExp(u))
    [] r = 11  -> Set(GRtVar(u), Pick({"*=", "/="}), IF Chance(1, 2) THEN ILit(Pick({1, 2, 3, 0, -2})) ELSE FLit(Pick({2, 4, 6, 8}), 2))
    [] r = 12  -> Set(GBoolVar(u), Pick({"=", "&&=", "||="}),
                      IF Chance(1, 3) THEN BLit(Chance(1, 2)) ELSE IF Chance(1, 2) THEN Id(GBoolVar(u)) ELSE Grp(GCond(1)))
    [] r >= 13 /\ r <= 15 -> Set(GStrVar(u), Pick({"=", "+="}), GStrExp(u))
    [] r = 16 \/ r = 17 -> Set(Pick(HdrNames), "=", GStrExp(u))
    [] r = 18  -> Unset(Pick(HdrNames))
    [] OTHER   -> Log(GStrExp(u))

RECURSIVE GStmt(_), GBlock(_, _), GCaseSeq(_), GBody(_, _)
GBlock(d, n) == IF n = 0 THEN <<>> ELSE <<GStmt(d)>> \o GBlock(d, n - 1)
\* a case body: nested statements while depth is left (an if inside a case inside an if ...)
GBody(d, i) == IF d > 0 /\ Chance(1, 2) THEN GBlock(d - 1, Pick(1..2)) ELSE <<GSimple(i)>>
GCaseSeq(d) ==
  LET ts == Pick(TestSeqs)
      n  == Len(ts)
      cs == [i \in 1..n |-> IF ts[i].re THEN CaseRe(ts[i].pat, GBody(d, i), Chance(1, 3)) ELSE CaseLit(ts[i].lit, GBody(d, i), Chance(1, 3))]
      cd == IF Chance(2, 3) THEN InsertAt(cs, Pick(0..n), CaseDflt(GBody(d, 0), Chance(1, 3))) ELSE cs IN
  [cd EXCEPT ![Len(cd)].ft = FALSE]
GStmt(d) ==
  LET r == Pick(1..10) IN
  IF d = 0 \/ r <= 6 THEN GSimple(d)
  ELSE IF r <= 9 THEN
       LET n == Pick(1..3) IN
       If([i \in 1..n |-> Arm(GCond(1), GBlock(d - 1, Pick(1..2)))], IF Chance(1, 2) THEN GBlock(d - 1, Pick(1..2)) ELSE <<>>)
  ELSE Switch(Id(Pick({"s1", "s2", "h1"})), GCaseSeq(d))

\* every kind of variable gets a value first, so that programs do not spend their length on defaults
GInitial(u) == << Set("i1", "=", GIntLit(u)), Set("i2", "=", GIntLit(u)), Set("f1", "=", GFltLit(u)), Set("r1", "=", GRtLit(u)),
                  Set("s1", "=", GStrLit(u)), Set("h1", "=", GStrLit(u)), Set("b1", "=", BLit(Chance(1, 2))) >>

-----------------------------------------------------------------------------
(* state machine *)
\* cells and shapes are enumerated family by family, so that TLC's workers share the evaluation
OpOf(p) == p.stmts[Len(p.stmts)].op
CellKeys == {<<"int", op>> : op \in IntOps} \cup {<<"float", op>> : op \in FloatOps} \cup {<<"rtime", "">>, <<"bool", "">>, <<"int-from-float", "">>, <<"int-x-float", "">>, <<"float-x-int", "">>, <<"rtime-x", "">>, <<"rtime-cmp", "">>, <<"dual", "">>, <<"dual-same", "">>, <<"rtime-subms", "">>, <<"bigint-cmp", "">>} \cup
            {<<"str-local", op>> : op \in {"=", "+="}} \cup {<<"str-header", sc>> : sc \in Scopes} \cup {<<"unset", "">>, <<"log", "">>}
CellFam(key) ==
  CASE key[1] = "int"        -> {p \in IntCells : p.tag = "int" /\ OpOf(p) = key[2]}
    [] key[1] = "float"      -> {p \in FloatCells : OpOf(p) = key[2]}
    [] key[1] = "str-local"  -> {p \in StrCells : p.tag = "str-local" /\ OpOf(p) = key[2]}
    [] key[1] = "str-header" -> {p \in StrCells : p.tag = "str-header" /\ p.scope = key[2]}
    [] OTHER                 -> {p \in AllCells : p.tag = key[1]}
ShapeKeys == {<<"if1", 0>>, <<"if-nested", 0>>, <<"switch-hdr", 0>>} \cup {<<"if2", c>> : c \in CondPool} \cup {<<"if3", c>> : c \in CondPool3} \cup
             {<<"switch", c>> : c \in Controls} \cup {<<"pair", x>> : x \in KindReps}
FirstArm(p) == p.stmts[Len(p.stmts) - 1].arms
ShapeFam(key) ==
  CASE key[1] = "if1"    -> {p \in IfShapes : Len(FirstArm(p)) = 1}
    [] key[1] = "if2"    -> {p \in IfShapes : Len(FirstArm(p)) = 2 /\ FirstArm(p)[1].c = key[2]}
    [] key[1] = "if3"    -> {p \in IfShapes3 : FirstArm(p)[1].c = key[2]}
    [] key[1] = "switch" -> {p \in SwitchShapes : p.tag = "switch" /\ SubSeq(p.stmts, 2, 2) = key[2]}
    [] key[1] = "pair"   -> {p \in Pairs : p.stmts[Len(p.stmts)] = key[2]}
    [] OTHER             -> {p \in AllShapes : p.tag = key[1]}
Keys == IF Mode = "cells" THEN CellKeys ELSE ShapeKeys
Fam(key) == IF Mode = "cells" THEN CellFam(key) ELSE ShapeFam(key)

Expected(p) == Run(p.stmts, M0)
Obs(M) == [st |-> M.st, S |-> M.S, nlogs |-> Len(M.logs), lastlog |-> IF Len(M.logs) = 0 THEN <<>> ELSE M.logs[Len(M.logs)]]
ObsSeq(x) == [i \in 1..Len(x) |-> Obs(x[i])]
\* what a header receives when the final value of a pooled variable is assigned to it (whole-program replay: the
\* program runs inside a subroutine frame and exports its variables to headers before it returns)
FinVal(v) == IF v.t \in {"BITS", "UNDECL"} THEN [t |-> "SKIP"] ELSE StrOp("=", NotSetV, v, TRUE)
Fin(o) == IF Len(o) = 0 THEN [n \in Names |-> [t |-> "SKIP"]] ELSE [n \in Names |-> FinVal(o[Len(o)].S[n])]
\* free: result variables whose value the reference leaves open; law: pairs of variables that must be equal at the end
FreeOf(p) == IF p.tag = "dual" THEN <<"b1", "b2">> ELSE <<>>
LawOf(p) == IF p.tag \in {"dual", "dual-same"} THEN << <<"b1", "b2">> >> ELSE <<>>
Emit(p, o) == PrintT(<<"BEHAVIOUR", ToJson([scope |-> p.scope, tag |-> p.tag, stmts |-> p.stmts, exp |-> o, fin |-> Fin(o),
                                            free |-> FreeOf(p), law |-> LawOf(p)])>>)

VARIABLES phase,   \* "part" -> "emit" (cells / shapes) ; "start" -> "gen" -> "done" (sim)
          item,    \* a family key, a program, or the program under construction
          cur,     \* sim: machine state after the statements generated so far
          obs      \* sim: expected observations so far
vars == <<phase, item, cur, obs>>

Init == /\ cur = M0 /\ obs = <<>>
        /\ IF Mode = "sim" THEN phase = "start" /\ item = 0 ELSE phase = "part" /\ item \in Keys

EnumNext == Mode # "sim" /\ phase = "part" /\ UNCHANGED <<cur, obs>> /\ \E p \in Fam(item) : item' = p /\ phase' = "emit"

\* sim: a random scope and random initial values, then one random top-level statement per step.  A statement
\* that would end the program (error / unspecified / out of range) is usually discarded and another one drawn.
SimStart ==
  /\ Mode = "sim" /\ phase = "start"
  /\ \E p \in {[scope |-> Pick(Scopes), tag |-> "sim", stmts |-> <<DeclAll>> \o GInitial(0)]} :
       LET x == Run(p.stmts, M0) IN
       item' = p /\ cur' = x[Len(x)] /\ obs' = ObsSeq(x) /\ phase' = "gen"
SimStep ==
  /\ Mode = "sim" /\ phase = "gen"
  /\ IF Len(item.stmts) >= SimLen + 8 THEN phase' = "done" /\ UNCHANGED <<item, cur, obs>>
     ELSE \E s \in {GStmt(2)} : \E keep \in {Chance(1, 8)} :
          LET M1 == Exec(s, cur) IN
          IF M1.st = "ok" \/ keep
          THEN /\ item' = [item EXCEPT !.stmts = Append(@, s)] /\ cur' = M1 /\ obs' = Append(obs, Obs(M1))
               /\ phase' = IF M1.st = "ok" THEN "gen" ELSE "done"
          ELSE UNCHANGED vars
Next == EnumNext \/ SimStart \/ SimStep
Spec == Init /\ [][Next]_vars

EmitInv == /\ (phase = "emit") => Emit(item, ObsSeq(Expected(item)))
           /\ (phase = "done") => Emit(item, obs)

\* the evaluator's own laws (duality of the comparison operators, !~ is the negation of ~), checked when TLC starts
ASSUME LawsHold == Laws /\ ReLaws /\ ShiftLaws
=============================================================================
