SPECIFICATION Spec
CONSTANTS
  Mode = "shapes"
  SimLen = 0
  NParts = 1
INVARIANTS
  EmitInv
CHECK_DEADLOCK FALSE
