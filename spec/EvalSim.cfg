SPECIFICATION Spec
CONSTANTS
  Mode = "sim"
  SimLen = 30
  NParts = 1
INVARIANTS
  EmitInv
CHECK_DEADLOCK FALSE
