SPECIFICATION Spec
CONSTANTS
  MaxRestarts = 3
  Emit = TRUE
INVARIANTS
  TypeOK
  MeetsWithoutRestart
  NoSnippetsNoDifference
  BodyKept
  OnlyKnownDevs
  EmitInv
CHECK_DEADLOCK FALSE
