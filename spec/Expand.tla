------------------------------- MODULE Expand -------------------------------
(***************************************************************************)
(* Expansion of the `#FASTLY <scope>` boilerplate macro into the scoped    *)
(* VCL snippets of a service: extension X02 (not a listed property).       *)
(*                                                                         *)
(* Anchors: interpreter/subroutine.go  extractBoilerplateMacro,            *)
(*          hasFastlyBoilerplateMacro, ProcessSubroutine;                  *)
(*          interpreter/interpreter.go restart, ProcessRecv .. ProcessLog  *)
(*                                                                         *)
(* REQUIREMENT (Fastly: the macro line is replaced by the snippets of that *)
(* scope, in priority order, once, where the macro stands): every          *)
(* execution of a lifecycle subroutine runs the statements before the      *)
(* macro, then each snippet exactly once in order, then the statements     *)
(* after it - whether or not the request was restarted before.             *)
(*                                                                         *)
(* MECHANISM: ProcessSubroutine calls extractBoilerplateMacro on every     *)
(* execution and that function rewrites sub.Block.Statements in place: a   *)
(* macro in the leading comment of statement k inserts the snippet         *)
(* statements before statement k (first match only); a macro in the block's *)
(* trailing (infix) comment prepends them to the block.  The rewritten     *)
(* tree is what the next execution of the same subroutine in the same      *)
(* request starts from (the tree is parsed anew per request).              *)
(***************************************************************************)
EXTENDS Integers, Sequences, FiniteSets, TLC, Json

CONSTANTS MaxRestarts, Emit

Positions == {"none", "lead1", "lead2", "lead3", "tail", "twice", "only"}
\* none: no macro; leadK: macro in the comment above statement K of 3; tail: macro after the last statement
\* (the block's trailing comment); twice: above statement 1 and above statement 2; only: a body with nothing but the macro
Sites == {"recv", "deliver"}          \* where the program restarts while req.restarts < R
NBody(p) == IF p = "only" THEN 0 ELSE 3

VARIABLES pos,      \* macro position used in vcl_recv and vcl_deliver alike
          nsnip,    \* snippets registered per scope (0..2)
          site, R,  \* restart site and how many restarts the program asks for
          phase,    \* "recv" | "error" | "deliver" | "log" | "done"
          restarts,
          runs,     \* executions of each subroutine in this request so far
          out,      \* log lines, mechanism
          req       \* log lines, requirement
vars == <<pos, nsnip, site, R, phase, restarts, runs, out, req>>

B(s, k) == <<"b", s, k>>              \* log line of body statement k of subroutine s
Sn(s, j) == <<"s", s, j>>             \* log line of snippet j of scope s
Seg(s, lo, hi) == [k \in 1..(hi - lo + 1) |-> B(s, lo + k - 1)]
Snips(s) == [j \in 1..nsnip |-> Sn(s, j)]
RECURSIVE Times(_, _)
Times(x, n) == IF n <= 0 THEN <<>> ELSE x \o Times(x, n - 1)

\* what one execution of subroutine s prints when its snippets have been spliced in `copies` times
Body(s, copies, atMacro) ==
  LET n == NBody(pos)  sn == Times(Snips(s), copies) IN
  CASE pos = "none"  -> Seg(s, 1, n)
    [] pos = "lead1" -> sn \o Seg(s, 1, n)
    [] pos = "twice" -> sn \o Seg(s, 1, n)
    [] pos = "lead2" -> Seg(s, 1, 1) \o sn \o Seg(s, 2, n)
    [] pos = "lead3" -> Seg(s, 1, 2) \o sn \o Seg(s, 3, n)
    [] pos = "only"  -> sn
    [] pos = "tail"  -> IF atMacro THEN Seg(s, 1, n) \o sn ELSE sn \o Seg(s, 1, n)

HasMacro == pos # "none"
\* mechanism: the j-th execution sees j copies (one more is spliced in on every call); the trailing-comment form prepends
Mech(s) == Body(s, IF HasMacro THEN runs[s] + 1 ELSE 0, FALSE)
\* requirement: always one copy, where the macro stands.  A macro after the last statement of vcl_recv stands behind
\* `error 601;` and is never reached; in vcl_deliver it is reached unless this execution restarts.
Reqd(s, restarting) ==
  IF pos = "tail" THEN Seg(s, 1, 3) \o (IF s = "deliver" /\ ~restarting THEN Snips(s) ELSE <<>>)
  ELSE Body(s, IF HasMacro THEN 1 ELSE 0, TRUE)

Run(s, nextPhase) ==
  /\ out' = out \o Mech(s)
  /\ req' = req \o Reqd(s, site = s /\ restarts < R)
  /\ runs' = [runs EXCEPT ![s] = @ + 1]
  /\ IF site = s /\ restarts < R
     THEN restarts' = restarts + 1 /\ phase' = "recv"
     ELSE restarts' = restarts /\ phase' = nextPhase
  /\ UNCHANGED <<pos, nsnip, site, R>>

Recv    == phase = "recv" /\ Run("recv", "error")          \* the program ends vcl_recv with `error 601;`
Error   == phase = "error" /\ phase' = "deliver" /\ UNCHANGED <<pos, nsnip, site, R, restarts, runs, out, req>>
Deliver == phase = "deliver" /\ Run("deliver", "log")
Log     == phase = "log" /\ phase' = "done" /\ UNCHANGED <<pos, nsnip, site, R, restarts, runs, out, req>>

Init == /\ pos \in Positions /\ nsnip \in 0..2 /\ site \in Sites /\ R \in 0..MaxRestarts
        /\ phase = "recv" /\ restarts = 0 /\ runs = [s \in Sites |-> 0] /\ out = <<>> /\ req = <<>>
Next == Recv \/ Error \/ Deliver \/ Log
Spec == Init /\ [][Next]_vars

TypeOK == restarts \in 0..MaxRestarts /\ phase \in {"recv", "error", "deliver", "log", "done"}
\* without a restart, and unless the macro stands after the last statement, the mechanism meets the requirement
MeetsWithoutRestart == (phase = "done" /\ R = 0 /\ pos # "tail") => out = req
\* a program without snippets or without a macro prints the same either way
NoSnippetsNoDifference == (phase = "done" /\ (nsnip = 0 \/ pos = "none")) => out = req
\* the body statements are never lost or reordered by the expansion
BodyKept == phase = "done" => SelectSeq(out, LAMBDA l : l[1] = "b") = SelectSeq(req, LAMBDA l : l[1] = "b")
\* the departures are exactly: repeated copies after a restart, and the trailing macro expanding at the top
Dev == IF out = req THEN "none"
       ELSE IF nsnip = 0 \/ ~HasMacro THEN "unknown"
       ELSE IF pos = "tail" THEN (IF restarts > 0 THEN "K1K2" ELSE "K2")
       ELSE IF restarts > 0 THEN "K1" ELSE "unknown"
OnlyKnownDevs == phase = "done" => Dev # "unknown"

Str(l) == l[1] \o ":" \o l[2] \o ":" \o ToString(l[3])
Beh == [ pos |-> pos, nsnip |-> nsnip, site |-> site, R |-> R, dev |-> Dev,
         mech |-> [i \in 1..Len(out) |-> Str(out[i])], req |-> [i \in 1..Len(req) |-> Str(req[i])] ]
EmitInv == (Emit /\ phase = "done") => PrintT(<<"BEHAVIOUR", ToJson(Beh)>>)
=============================================================================
