------------------------------- MODULE FmtDoc -------------------------------
(***************************************************************************)
(* Abstract VCL documents for the formatter properties (C03 C14 C15 C09).  *)
(*                                                                         *)
(* A syntax object is a pair [a |-> abstract syntax, t |-> template]:      *)
(*   a  the projection of DESIGN.md appendix A (what project() in          *)
(*      harness/cmd/vhfmt/project.go computes from a real *ast.VCL);       *)
(*      fields named p_... are presentational (predicted by Normalize in   *)
(*      Format.tla, never part of a verdict);                              *)
(*   t  Render(a): the token sequence with the comment *gaps* of           *)
(*      docs/parser.md in source order.  A gap is                          *)
(*      [t |-> "g", n |-> node kind, l |-> label, c |-> layout class,      *)
(*       d |-> documented in docs/parser.md].                              *)
(* Every constructor below is one production of docs/parser.md: the        *)
(* template is the documented form with one gap per <comment> placeholder  *)
(* (d = TRUE) plus the positions the grammar also tolerates (d = FALSE,    *)
(* used by C09 only).  TLC enumerates the documents; the Go side only      *)
(* joins the words and drops comments into gaps.                           *)
(***************************************************************************)
EXTENDS Naturals, Sequences, FiniteSets, TLC

W(s)          == <<[t |-> "w", s |-> s]>>
G(n, l, c, d) == <<[t |-> "g", n |-> n, l |-> l, c |-> c, d |-> d]>>
NL            == <<[t |-> "nl"]>>
BL            == <<[t |-> "bl"]>>
NONE          == [k |-> "none"]
NoneObj       == [a |-> NONE, t |-> <<>>]

SeqA(ss) == [i \in 1..Len(ss) |-> ss[i].a]
RECURSIVE CatT(_)
CatT(ss) == IF ss = <<>> THEN <<>> ELSE ss[1].t \o CatT(Tail(ss))
RECURSIVE CatSep(_, _)
CatSep(ss, sep) == IF ss = <<>> THEN <<>> ELSE IF Len(ss) = 1 THEN ss[1].t ELSE ss[1].t \o sep \o CatSep(Tail(ss), sep)

(***************************************************************************)
(* Expressions                                                             *)
(***************************************************************************)
Id(v)        == [a |-> [k |-> "ident", v |-> v], t |-> W(v)]
Str(v, src)  == [a |-> [k |-> "string", v |-> v], t |-> W(src)]
Int(v, src)  == [a |-> [k |-> "int", v |-> v], t |-> W(src)]
Flt(v, src)  == [a |-> [k |-> "float", v |-> v], t |-> W(src)]
RTime(v)     == [a |-> [k |-> "rtime", v |-> v], t |-> W(v)]
Bool(b)      == [a |-> [k |-> "bool", v |-> b], t |-> W(IF b THEN "true" ELSE "false")]
Prefix(op, r) == [a |-> [k |-> "prefix", op |-> op, right |-> r.a], t |-> W(op) \o r.t]
Infix(op, l, r) ==
  [a |-> [k |-> "infix", op |-> op, l |-> l.a, r |-> r.a],
   t |-> l.t \o G("infix", "before_op", "in", FALSE) \o W(op) \o G("infix", "after_op", "in", FALSE) \o r.t]
\* string concatenation: explicit `+` or juxtaposition
Cat(l, r, explicit) ==
  [a |-> [k |-> "infix", op |-> "+", l |-> l.a, r |-> r.a, p_explicit |-> explicit],
   t |-> l.t \o G("concat", "between", "in", FALSE) \o (IF explicit THEN W("+") ELSE <<>>) \o r.t]
Group(e)     == [a |-> [k |-> "group", e |-> e.a],
                 t |-> W("(") \o G("group", "after_open", "in", FALSE) \o e.t \o G("group", "before_close", "in", FALSE) \o W(")")]
ArgsT(n, args) ==
  IF args = <<>> THEN <<>>
  ELSE G(n, "arg_before", "in", TRUE) \o CatSep(args, G(n, "arg_after", "in", TRUE) \o W(",") \o G(n, "arg_before", "in", TRUE))
       \o G(n, "arg_after", "in", TRUE)
FCallX(fn, args) == [a |-> [k |-> "fcallx", fn |-> fn, args |-> SeqA(args)],
                     t |-> W(fn) \o G("fcallx", "before_paren", "in", FALSE) \o W("(") \o ArgsT("fcallx", args) \o W(")")]
Postfix(op, l) == [a |-> [k |-> "postfix", op |-> op, left |-> l.a], t |-> W(l.a.v \o op)]    \* `50%` is one word
IfX(c, x, y) == [a |-> [k |-> "ifx", c |-> c.a, a |-> x.a, b |-> y.a],
                 t |-> W("if") \o W("(") \o c.t \o W(",") \o x.t \o W(",") \o y.t \o W(")")]

idA == Id("req.http.A")      idB == Id("req.http.B")     idC == Id("req.http.C-D")   idV == Id("var.s")
sA  == Str("a", "\"a\"")     sB  == Str("b", "\"b\"")    sRe == Str("^/x", "\"^/x\"")
sEsc == Str("c\"d e", "\"c%22d%20e\"")                   \* %-escapes are decoded in the value, kept in the source
sLong == Str("l\"q", "{\"l\"q\"}")                       \* long string: no escapes
sML == Str("x\n y", "{\"x\n y\"}")                       \* long string over two lines
sWide == Str("wwwwwwwwwwwwwwww", "\"wwwwwwwwwwwwwwww\"")
i10 == Int("10", "10")       iHex == Int("26", "0x1a")   f15 == Flt("1.5", "1.5")    fExp == Flt("1000", "1e3")
r10 == RTime("10s")          bT == Bool(TRUE)

Cmp   == Infix("==", idA, sA)
CmpN  == Infix("!=", idB, sB)
Mat   == Infix("~", idA, sRe)
NMat  == Infix("!~", idB, sRe)
Not   == Prefix("!", idB)

\* value expressions (right-hand sides, arguments)
ValExprs == {
  sA, idB, i10, iHex, f15, fExp, r10, bT, sEsc, sLong, sML,
  Cat(sA, idB, TRUE), Cat(sA, idB, FALSE), Cat(Cat(sA, idB, TRUE), sB, FALSE),
  Cat(Cat(Cat(Cat(sWide, idA, TRUE), sWide, TRUE), idB, TRUE), sWide, TRUE),      \* wraps at line_width 20/40
  Cat(sA, FCallX("std.itoa", <<i10>>), TRUE),
  Cat(sA, IfX(Cmp, sA, sB), TRUE),
  FCallX("std.itoa", <<i10>>), FCallX("regsub", <<idA, sRe, sB>>), FCallX("now", <<>>),
  IfX(Cmp, sA, Cat(sA, idB, TRUE)), IfX(Not, idA, sB),
  Not, Cmp, Group(Cmp), Prefix("-", i10),
  Cat(Id("now"), RTime("10m"), TRUE), Cat(sA, i10, TRUE), Cat(Cat(i10, sA, TRUE), bT, TRUE),     \* + that is not a juxtaposition
  Group(Infix("&&", Group(Cmp), Prefix("!", Group(Mat)))),                        \* nested groups, prefix on a group
  Prefix("!", Group(Infix("||", Cmp, Not)))
}
SomeVals == {sA, Cat(sA, idB, FALSE), FCallX("std.itoa", <<i10>>)}

\* conditions
CondExprs == {
  Cmp, CmpN, Mat, NMat, Not, idA,
  Infix("&&", Cmp, Not), Infix("||", Cmp, Mat),
  Infix("||", Infix("&&", Cmp, Not), Mat),                       \* && binds tighter
  Infix("&&", Group(Infix("||", Cmp, Mat)), Not),                \* grouping needed
  Prefix("!", Group(Infix("&&", Cmp, Mat))),
  Infix("||", Group(Infix("&&", Group(Cmp), Not)), Prefix("!", Group(Group(Mat)))),
  Infix("&&", Infix("&&", Infix("<", Id("var.i"), i10), Infix(">=", Id("var.i"), iHex)), Infix("<=", Id("var.f"), f15)),
  Infix("==", idA, Cat(sA, idB, TRUE)),
  Infix("==", idA, sML),
  Infix("&&", Group(idA), idB), Infix("||", idC, Infix("&&", Group(Not), Group(idB))),      \* plain groups as operands of a split condition
  Infix("&&", Group(Infix("&&", Cmp, Mat)), Not),                \* a group that is redundant for the grouping
  Infix("||", Infix("&&", Infix("==", idA, sWide), Infix("~", idB, sWide)), Infix("!=", idC, sWide))   \* wraps
}
SomeConds == {Cmp, Infix("&&", Cmp, Not)}

\* values that START with a parenthesised group and go on with two or three more operators / juxtapositions
\* (infix chains are left-nested: the group is the left operand of the innermost infix)
ChainReturns ==
  {Infix("&&", Infix("&&", Group(Infix("||", idA, idB)), idC), idV),                                  \* (a || b) && c && d
   Infix("||", Infix("&&", Infix("&&", Group(idA), idB), idC), idV),                                  \* (a) && b && c || d
   Cat(Cat(Group(idA), Str("-", "\"-\""), FALSE), idB, FALSE),                                       \* (a) "-" b
   Cat(Cat(Cat(Group(Cat(sA, idA, TRUE)), sB, TRUE), idB, FALSE), sA, TRUE),
   Infix("==", Cat(Cat(Group(idA), sA, FALSE), idB, TRUE), sB)}

(***************************************************************************)
(* Statements.  St wraps the common shape                                  *)
(*   <comment> NL  kw ... ; <comment>                                      *)
(***************************************************************************)
St(kind, a, mid) ==
  [a |-> a @@ [p_blank |-> FALSE],
   t |-> G(kind, "lead", "lead", TRUE) \o mid \o W(";") \o G(kind, "trail", "trail", TRUE) \o NL]

Assign(kind, id, op, v) ==
  St(kind, [k |-> kind, ident |-> id.a.v, op |-> op, value |-> v.a],
     W(kind) \o G(kind, "after_kw", "in", TRUE) \o id.t \o G(kind, "after_ident", "in", TRUE) \o W(op)
     \o G(kind, "after_op", "in", TRUE) \o v.t \o G(kind, "before_semi", "in", TRUE))
SetS(id, op, v) == Assign("set", id, op, v)
AddS(id, op, v) == Assign("add", id, op, v)
UnRm(kind, id) ==
  St(kind, [k |-> kind, ident |-> id.a.v],
     W(kind) \o G(kind, "after_kw", "in", TRUE) \o id.t \o G(kind, "before_semi", "in", TRUE))
Bare(kind, word) == St(kind, [k |-> kind], W(word) \o G(kind, "before_semi", "in", TRUE))
ValS(kind, word, v) ==
  St(kind, [k |-> kind, value |-> v.a], W(word) \o G(kind, "after_kw", "in", TRUE) \o v.t \o G(kind, "before_semi", "in", TRUE))
Declare(name, ty, v) ==
  St("declare", [k |-> "declare", name |-> name, vtype |-> ty, value |-> v.a],
     W("declare") \o G("declare", "after_kw", "in", TRUE) \o W("local") \o G("declare", "after_local", "in", TRUE) \o W(name)
     \o G("declare", "after_name", "in", TRUE) \o W(ty)
     \o (IF v.a.k = "none" THEN <<>> ELSE W("=") \o v.t) \o G("declare", "before_semi", "in", TRUE))
\* form: "bare" = call f;  "parens" = call f();  (arguments imply parentheses)
Call(sub, args, form) ==
  St("call", [k |-> "call", sub |-> sub, args |-> SeqA(args)],
     W("call") \o G("call", "after_kw", "in", TRUE) \o W(sub)
     \o (IF form = "bare" THEN <<>> ELSE W("(") \o ArgsT("call", args) \o W(")")) \o G("call", "before_semi", "in", TRUE))
FCall(fn, args) ==
  St("fcall", [k |-> "fcall", fn |-> fn, args |-> SeqA(args)],
     W(fn) \o G("fcall", "before_paren", "in", FALSE) \o W("(") \o ArgsT("fcall", args) \o W(")") \o G("fcall", "before_semi", "in", TRUE))
ErrorS(code, arg) ==
  St("error", [k |-> "error", code |-> code.a, arg |-> arg.a],
     W("error") \o G("error", "after_kw", "in", TRUE) \o code.t
     \o (IF arg.a.k = "none" THEN <<>> ELSE G("error", "after_code", "in", TRUE) \o arg.t)
     \o G("error", "before_semi", "in", TRUE))
Goto(dest)  == St("goto", [k |-> "goto", dest |-> dest], W("goto") \o G("goto", "after_kw", "in", TRUE) \o W(dest) \o G("goto", "before_semi", "in", TRUE))
\* goto target `name:` has no semicolon
Label(name, word) == [a |-> [k |-> "label", name |-> word, p_blank |-> FALSE],
                      t |-> G("label", "lead", "lead", TRUE) \o W(word) \o G("label", "trail", "trail", TRUE) \o NL]
Include(m, src) == St("include", [k |-> "include", module |-> m], W("include") \o G("include", "after_kw", "in", TRUE) \o W(src) \o G("include", "before_semi", "in", TRUE))
Import(n)       == St("import", [k |-> "import", name |-> n], W("import") \o G("import", "after_kw", "in", TRUE) \o W(n) \o G("import", "before_semi", "in", TRUE))
\* form: "none" = return;  "paren" = return (e);  "plain" = return e;
Return(e, form) ==
  St("return",
     IF form = "none" THEN [k |-> "return", expr |-> NONE] ELSE [k |-> "return", expr |-> e.a, p_paren |-> (form = "paren")],
     W("return") \o G("return", "after_kw", "in", TRUE)
     \o (CASE form = "none"  -> <<>>
           [] form = "paren" -> W("(") \o G("return", "after_open", "in", TRUE) \o e.t \o G("return", "before_close", "in", TRUE)
                                \o W(")") \o G("return", "before_semi", "in", TRUE)
           [] form = "plain" -> e.t \o G("return", "before_semi", "in", TRUE)))

\* { <statement>... <comment> } <comment>
BlockT(n, body) == W("{") \o NL \o CatT(body) \o G(n, "block_end", "inner", TRUE) \o W("}")
Block(body) == [a |-> [k |-> "block", body |-> SeqA(body), p_blank |-> FALSE],
                t |-> G("block", "lead", "lead", TRUE) \o BlockT("block", body) \o G("block", "trail", "trail", TRUE) \o NL]

\* if <c> ( <c> cond <c> ) <c> { ... }  <c> else if ...  <c> else <c> { ... }
\* docs/parser.md puts no placeholder at the end of an if-block or after its closing brace; "block_trail" is the
\* position on the same line as the closing brace that is followed by else-if / else (`} // c<LF> else {`): it is the
\* documented <comment> placeholder between the brace and the keyword, whichever line it is written on
IfBlockT(body) == W("{") \o NL \o CatT(body) \o G("if", "block_end", "inner", FALSE) \o W("}")
CondT(n, kwT, c) ==
  kwT \o G(n, "after_kw", "in", TRUE) \o W("(") \o G(n, "cond_before", "in", TRUE) \o c.t \o G(n, "cond_after", "in", TRUE)
  \o W(")") \o G(n, "before_block", "in", TRUE)
Elif(kwT, kw, c, body) ==
  [a |-> [k |-> "elif", p_kw |-> kw, cond |-> c.a, then |-> SeqA(body)],
   t |-> G("if", "block_trail", "trail", TRUE) \o G("elif", "lead", "lead", TRUE) \o CondT("elif", kwT, c) \o IfBlockT(body)]
Else(body) ==
  [a |-> [k |-> "else", body |-> SeqA(body)],
   t |-> G("if", "block_trail", "trail", TRUE) \o G("else", "lead", "lead", TRUE) \o W("else") \o G("else", "after_kw", "in", TRUE) \o IfBlockT(body)]
If(c, body, elifs, els) ==
  [a |-> [k |-> "if", cond |-> c.a, then |-> SeqA(body), elifs |-> SeqA(elifs), else |-> els.a, p_blank |-> FALSE],
   t |-> G("if", "lead", "lead", TRUE) \o CondT("if", W("if"), c) \o IfBlockT(body) \o CatT(elifs) \o els.t
         \o G("if", "trail", "trail", FALSE) \o NL]

\* switch <c> ( <c> e <c> ) <c> { <c> case <c> e <c> : <c> stmts ... }
Case(test, body, ft) ==
  [a |-> [k |-> "case", test |-> test.a, body |-> SeqA(body), fallthrough |-> ft],
   t |-> G("case", "lead", "lead", TRUE)
         \o (IF test.a.k = "none" THEN W("default") \o G("case", "before_colon", "in", TRUE)
             ELSE W("case") \o G("case", "after_kw", "in", TRUE) \o test.t \o G("case", "before_colon", "in", TRUE))
         \o W(":") \o G("case", "trail", "trail", TRUE) \o NL \o CatT(body)]
TestEq(e)  == [a |-> [k |-> "test", op |-> "==", right |-> e.a], t |-> e.t]
TestRe(e)  == [a |-> [k |-> "test", op |-> "~", right |-> e.a], t |-> W("~") \o G("case", "after_tilde", "in", FALSE) \o e.t]
Switch(ctl, cases) ==
  [a |-> [k |-> "switch", control |-> ctl.a, cases |-> SeqA(cases), p_blank |-> FALSE],
   t |-> G("switch", "lead", "lead", TRUE) \o W("switch") \o G("switch", "after_kw", "in", TRUE) \o W("(")
         \o G("switch", "ctl_before", "in", TRUE) \o ctl.t \o G("switch", "ctl_after", "in", TRUE) \o W(")")
         \o G("switch", "before_block", "in", TRUE) \o W("{") \o NL \o CatT(cases)
         \o G("switch", "block_end", "inner", FALSE) \o W("}") \o G("switch", "trail", "trail", FALSE) \o NL]

Esi == Bare("esi", "esi")   Restart == Bare("restart", "restart")
Break == Bare("break", "break")   Fallthrough == Bare("fallthrough", "fallthrough")
LogA == ValS("log", "log", sA)
SetA == SetS(idA, "=", sA)

SimpleBodies == {<<>>, <<Esi>>, <<SetA, LogA>>}

IfStmts ==
  {If(c, <<SetA>>, <<>>, NoneObj) : c \in CondExprs}
  \cup {If(Cmp, b, <<>>, NoneObj) : b \in SimpleBodies}
  \cup {If(Cmp, <<Esi>>, <<>>, Else(b)) : b \in {<<>>, <<Restart>>}}
  \cup {If(Cmp, <<Esi>>, <<Elif(kw[1], kw[2], c, <<LogA>>)>>, e) :
          kw \in {<<W("else") \o G("elif", "between", "in", FALSE) \o W("if"), "else if">>, <<W("elseif"), "elseif">>, <<W("elsif"), "elsif">>},
          c \in SomeConds, e \in {NoneObj, Else(<<Restart>>)}}
  \cup {If(Cmp, <<Esi>>, <<Elif(W("elsif"), "elsif", Mat, <<>>), Elif(W("else") \o W("if"), "else if", Not, <<Esi>>)>>, Else(<<LogA>>))}
  \cup {If(Cmp, <<If(Not, <<Esi>>, <<>>, Else(<<LogA>>))>>, <<>>, NoneObj)}          \* nesting
  \cup {If(Cmp, <<Esi>>, <<Elif(W("else") \o W("if"), "else if", Mat, <<LogA>>), Elif(W("elseif"), "elseif", Not, <<Restart>>),
                        Elif(W("elsif"), "elsif", CmpN, <<SetA>>)>>, Else(<<LogA, Esi>>))}
  \* constructs nested in constructs: switch in if/else, if in a case, block in an else-if, two levels of blocks
  \cup {If(Cmp, <<Switch(idA, <<Case(TestEq(sA), <<If(Not, <<LogA>>, <<Elif(W("elseif"), "elseif", Mat, <<Esi>>)>>, NoneObj), Break>>, FALSE),
                               Case(NoneObj, <<Block(<<SetA>>), Break>>, FALSE)>>)>>,
           <<Elif(W("else") \o W("if"), "else if", Mat, <<Block(<<Block(<<Esi>>), LogA>>)>>)>>,
           Else(<<Switch(idB, <<Case(TestRe(sRe), <<Restart, Break>>, FALSE)>>), SetS(idA, "=", Cat(sA, IfX(Cmp, sA, FCallX("std.itoa", <<i10>>)), TRUE))>>))}

SwitchStmts ==
  {Switch(idA, <<Case(TestEq(sA), <<Esi, Break>>, FALSE)>>),
   Switch(idA, <<Case(TestEq(sA), <<LogA, Break>>, FALSE), Case(NoneObj, <<Esi, Break>>, FALSE)>>),
   Switch(idA, <<Case(NoneObj, <<Break>>, FALSE), Case(TestEq(sB), <<Esi, Break>>, FALSE)>>),           \* default first
   Switch(idA, <<Case(TestEq(sA), <<LogA, Fallthrough>>, TRUE), Case(TestRe(sRe), <<Esi, Break>>, FALSE),
                 Case(NoneObj, <<Restart, Break>>, FALSE)>>),
   Switch(FCallX("std.itoa", <<i10>>), <<Case(TestEq(Str("10", "\"10\"")), <<Break>>, FALSE)>>),
   Switch(FCallX("regsub", <<idA, sEsc, sB>>), <<Case(TestEq(sEsc), <<Break>>, FALSE)>>)}

Stmts ==
  {SetS(idA, "=", v) : v \in ValExprs}
  \cup {SetS(idV, op, sA) : op \in {"+=", "||="}} \cup {SetS(Id("var.i"), op, i10) : op \in {"-=", "<<=", "rol="}}
  \cup {AddS(idC, "=", v) : v \in SomeVals}
  \cup {UnRm("unset", idA), UnRm("remove", idB)}
  \cup {Esi, Restart, SetA, LogA}
  \cup {Declare("var.s", "STRING", NoneObj), Declare("var.i", "INTEGER", NoneObj), Declare("var.t", "STRING", sA)}
  \cup {Call("helper", <<>>, "bare"), Call("helper", <<>>, "parens"), Call("helper", <<sA, idB>>, "parens")}
  \cup {FCall("std.collect", <<idA>>), FCall("std.collect", <<idA, sA>>), FCall("fn.none", <<>>)}
  \cup {ErrorS(NoneObj, NoneObj), ErrorS(Int("401", "401"), NoneObj), ErrorS(Int("401", "401"), sA),
        ErrorS(Id("var.code"), NoneObj), ErrorS(Int("601", "601"), Cat(sA, idB, TRUE)),
        ErrorS(FCallX("std.atoi", <<sA>>), NoneObj),
        ErrorS(Id("var.code"), sA), ErrorS(FCallX("std.atoi", <<sA>>), Cat(sA, idB, FALSE))}      \* code kind x argument
  \cup {ValS("log", "log", v) : v \in SomeVals}
  \cup {ValS("synthetic", "synthetic", v) : v \in SomeVals \cup {sLong}}
  \cup {ValS("synthetic64", "synthetic.base64", sA)}
  \cup {Goto("end"), Label("end:", "end:")}
  \cup {Return(NoneObj, "none"), Return(Id("lookup"), "paren"), Return(Id("lookup"), "plain"), Return(Id("deliver_stale"), "paren")}
  \cup {Include("mod", "\"mod\""), Include("m d", "\"m%20d\"")}
  \cup {Return(e, "paren") : e \in ChainReturns}          \* (state subs too: return_statement_parenthesis off unwraps them)
  \cup {Block(b) : b \in SimpleBodies}
  \cup IfStmts \cup SwitchStmts

\* return inside a subroutine that returns a value
FnReturns == {Return(e, "paren") : e \in ChainReturns} \cup
             {Return(Infix("&&", Group(idA), idB), "paren"), Return(Group(Group(Cmp)), "paren"), Return(bT, "plain"), Return(Cmp, "plain"), Return(Cmp, "paren"), Return(Cat(sA, idB, TRUE), "plain"),
              Return(Not, "plain"), Return(FCallX("std.itoa", <<i10>>), "plain")}

(***************************************************************************)
(* Declarations                                                            *)
(***************************************************************************)
\* kw <c> name <c> { ... <c> } <c>          (a leading comment is always possible)
DeclHead(n, kwT) == G(n, "lead", "lead", TRUE) \o kwT \o G(n, "after_kw", "in", TRUE)
Sub(name, params, rtype, body) ==
  [a |-> [k |-> "sub", name |-> name, params |-> SeqA(params), rtype |-> rtype, body |-> SeqA(body), p_blank |-> FALSE],
   t |-> DeclHead("sub", W("sub")) \o W(name)
         \o (IF params = <<>> THEN <<>> ELSE W("(") \o CatSep(params, W(",")) \o G("sub", "params_end", "in", FALSE) \o W(")"))
         \o (IF rtype = "" THEN <<>> ELSE G("sub", "before_rtype", "in", FALSE) \o W(rtype))
         \o G("sub", "after_name", "in", TRUE) \o BlockT("sub", body) \o G("sub", "trail", "trail", TRUE) \o NL]
Param(ty, name) == [a |-> [k |-> "param", type |-> ty, name |-> name], t |-> W(ty) \o W(name)]

Cidr(inv, ip, mask) ==
  [a |-> [k |-> "cidr", inverse |-> inv, ip |-> ip, mask |-> mask, p_blank |-> FALSE],
   t |-> G("cidr", "lead", "lead", TRUE) \o (IF inv THEN W("!") \o G("cidr", "after_bang", "in", TRUE) ELSE <<>>)
         \o (IF mask = "" THEN W("\"" \o ip \o "\"")
             ELSE W("\"" \o ip \o "\"") \o G("cidr", "before_slash", "in", FALSE) \o W("/") \o G("cidr", "after_slash", "in", FALSE) \o W(mask))
         \o G("cidr", "before_semi", "in", TRUE) \o W(";") \o G("cidr", "trail", "trail", TRUE) \o NL]
DeclBody(n, items) == W("{") \o NL \o CatT(items) \o G(n, "block_end", "inner", FALSE) \o W("}")
Acl(name, cidrs) ==
  [a |-> [k |-> "acl", name |-> name, cidrs |-> SeqA(cidrs), p_blank |-> FALSE],
   t |-> DeclHead("acl", W("acl")) \o W(name) \o G("acl", "after_name", "in", TRUE) \o DeclBody("acl", cidrs)
         \o G("acl", "trail", "trail", TRUE) \o NL]

\* .key <c> = <c> value <c> ; <c>
Prop(n, key, v) ==
  [a |-> [k |-> "prop", key |-> key, value |-> v.a, p_blank |-> FALSE],
   t |-> G(n, "lead", "lead", TRUE) \o W("." \o key) \o G(n, "after_key", "in", TRUE) \o W("=") \o G(n, "after_eq", "in", TRUE)
         \o v.t \o G(n, "before_semi", "in", TRUE) \o W(";") \o G(n, "trail", "trail", TRUE) \o NL]
\* .probe <c> = <c> { ... } <c>
Probe(props) ==
  [a |-> [k |-> "prop", key |-> "probe", value |-> [k |-> "probe", props |-> SeqA(props)], p_blank |-> FALSE],
   t |-> G("probe", "lead", "lead", TRUE) \o W(".probe") \o G("probe", "after_key", "in", TRUE) \o W("=")
         \o G("probe", "after_eq", "in", TRUE) \o DeclBody("probe", props) \o G("probe", "trail", "trail", TRUE) \o NL]
Backend(name, props) ==
  [a |-> [k |-> "backend", name |-> name, props |-> SeqA(props), p_blank |-> FALSE],
   t |-> DeclHead("backend", W("backend")) \o W(name) \o G("backend", "after_name", "in", TRUE) \o DeclBody("backend", props)
         \o G("backend", "trail", "trail", TRUE) \o NL]
\* { <c> .key <c> = <c> value <c> ; <c> } <c>
DProp(key, v) ==
  [a |-> [k |-> "prop", key |-> key, value |-> v.a, p_blank |-> FALSE],
   t |-> G("dbprop", "lead", "in", TRUE) \o W("." \o key) \o G("dbprop", "after_key", "in", TRUE) \o W("=")
         \o G("dbprop", "after_eq", "in", TRUE) \o v.t \o G("dbprop", "before_semi", "in", TRUE) \o W(";")]
DBackend(props) ==
  [a |-> [k |-> "dbackend", props |-> SeqA(props), p_blank |-> FALSE],
   t |-> G("dbackend", "lead", "lead", FALSE) \o W("{") \o CatT(props) \o G("dbackend", "block_end", "in", TRUE) \o W("}")
         \o G("dbackend", "trail", "trail", TRUE) \o NL]
Director(name, dtype, props) ==
  [a |-> [k |-> "director", name |-> name, dtype |-> dtype, props |-> SeqA(props), p_blank |-> FALSE],
   t |-> DeclHead("director", W("director")) \o W(name) \o G("director", "after_name", "in", TRUE) \o W(dtype)
         \o G("director", "after_type", "in", TRUE) \o DeclBody("director", props) \o G("director", "trail", "trail", TRUE) \o NL]
\* "key" <c> : <c> value <c> , <c>
TProp(key, v, comma) ==
  [a |-> [k |-> "tprop", key |-> key.a.v, value |-> v.a, p_comma |-> comma, p_blank |-> FALSE],
   t |-> G("tprop", "lead", "lead", TRUE) \o key.t \o G("tprop", "after_key", "in", TRUE) \o W(":") \o G("tprop", "after_colon", "in", TRUE)
         \o v.t \o G("tprop", "before_comma", "in", TRUE) \o (IF comma THEN W(",") ELSE <<>>) \o G("tprop", "trail", "trail", comma) \o NL]
Table(name, vtype, props) ==
  [a |-> [k |-> "table", name |-> name, vtype |-> vtype, props |-> SeqA(props), p_blank |-> FALSE],
   t |-> DeclHead("table", W("table")) \o W(name) \o G("table", "after_name", "in", TRUE)
         \o (IF vtype = "" THEN <<>> ELSE W(vtype) \o G("table", "after_type", "in", TRUE))
         \o DeclBody("table", props) \o G("table", "trail", "trail", FALSE) \o NL]
Empty(kind, name) ==
  [a |-> [k |-> kind, name |-> name, p_blank |-> FALSE],
   t |-> DeclHead(kind, W(kind)) \o W(name) \o G(kind, "after_name", "in", TRUE) \o W("{") \o G(kind, "block_end", "inner", TRUE) \o W("}")
         \o G(kind, "trail", "trail", TRUE) \o NL]

pHost == Prop("bprop", "host", Str("h.example.com", "\"h.example.com\""))
pPort == Prop("bprop", "port", Str("443", "\"443\""))
pSsl  == Prop("bprop", "ssl", bT)
pTime == Prop("bprop", "connect_timeout", r10)
pReq  == Prop("bprop", "request", Cat(Str("GET / HTTP/1.1", "\"GET / HTTP/1.1\""), Str("Host: h", "\"Host: h\""), FALSE))
pThr  == Prop("bprop", "threshold", i10)

Decls ==
  {Acl("a1", <<>>), Acl("a1", <<Cidr(FALSE, "10.0.0.1", "")>>),
   Acl("a1", <<Cidr(FALSE, "10.0.0.0", "8"), Cidr(TRUE, "10.1.0.0", "16"), Cidr(TRUE, "10.2.3.4", "")>>),
   Backend("b1", <<>>), Backend("b1", <<pHost>>), Backend("b1", <<pPort, pHost, pSsl>>),
   Backend("b1", <<pTime, Probe(<<pThr, pReq>>), pHost>>), Backend("b1", <<Probe(<<>>)>>),
   Director("d1", "random", <<>>),
   Director("d1", "random", <<Prop("dprop", "quorum", Postfix("%", Int("50", "50"))), DBackend(<<DProp("backend", Id("b1")), DProp("weight", i10)>>)>>),
   Director("d1", "client", <<DBackend(<<DProp("weight", i10), DProp("backend", Id("b1"))>>), DBackend(<<DProp("backend", Id("b2"))>>),
                               Prop("dprop", "retries", i10)>>),
   Table("t1", "", <<>>), Table("t1", "STRING", <<TProp(sA, sB, TRUE)>>), Table("t1", "", <<TProp(sB, sA, TRUE), TProp(sA, sB, FALSE)>>),
   Table("t1", "STRING", <<TProp(Str("k e", "\"k%20e\""), sEsc, TRUE)>>),
   Table("t1", "BACKEND", <<TProp(sB, Id("b1"), TRUE), TProp(sA, Id("b2"), TRUE)>>),
   Table("t1", "INTEGER", <<TProp(sA, i10, TRUE)>>), Table("t1", "STRING", <<TProp(sLong, sB, TRUE), TProp(sA, sLong, TRUE)>>),
   Empty("penaltybox", "p1"), Empty("ratecounter", "r1"),
   Import("geo"), Include("mod", "\"mod\""),
   Sub("vcl_recv", <<>>, "", <<>>), Sub("helper", <<>>, "", <<SetA, LogA>>),
   Sub("f1", <<Param("STRING", "var.p")>>, "BOOL", <<Return(bT, "plain")>>),
   Sub("f2", <<Param("STRING", "var.p"), Param("INTEGER", "var.q")>>, "STRING", <<Return(Cat(sA, Id("var.p"), TRUE), "plain")>>),
   Sub("f3", <<>>, "INTEGER", <<Return(i10, "plain")>>)}

(***************************************************************************)
(* Documents: a sequence of declarations.  Families                        *)
(*   unit   one declaration, or one statement inside `sub vcl_recv`        *)
(*   multi  several declarations (declaration sorting, blank lines)        *)
(*   group  several statements with blank-line groups                      *)
(***************************************************************************)
\* an empty line in front of s - after its leading comments, if any (every template starts with its "lead" gap;
\* an empty line in front of a leading comment belongs to the comment, not to the node)
Blank(s) == [a |-> [s.a EXCEPT !.p_blank = TRUE], t |-> <<s.t[1]>> \o BL \o Tail(s.t)]

UnitDocs ==
  {[fam |-> "decl", focus |-> d.a.k, ds |-> <<d>>] : d \in Decls}
  \cup {[fam |-> "stmt", focus |-> s.a.k, ds |-> <<Sub("vcl_recv", <<>>, "", <<s>>)>>] : s \in Stmts}
  \cup {[fam |-> "fnret", focus |-> "return", ds |-> <<Sub("f1", <<Param("STRING", "var.p")>>, "BOOL", <<r>>)>>] : r \in FnReturns}

SortPool == <<Sub("vcl_deliver", <<>>, "", <<Esi>>), Sub("helper", <<>>, "", <<SetA>>), Sub("vcl_recv", <<>>, "", <<LogA>>),
              Table("t1", "", <<TProp(sA, sB, TRUE)>>), Acl("a1", <<Cidr(FALSE, "10.0.0.1", "")>>), Backend("b1", <<pHost>>),
              Import("geo"), Sub("aaa", <<>>, "", <<Restart>>), Acl("a0", <<>>)>>
\* (a reserved subroutine may be declared more than once: Fastly concatenates the bodies)
SortPool2 == SortPool \o <<Sub("vcl_recv", <<>>, "", <<Esi>>), Sub("vcl_deliver", <<>>, "", <<Restart, LogA>>), Empty("penaltybox", "p1"), Empty("ratecounter", "r1"), Director("d1", "random", <<>>), Include("mod", "\"mod\"")>>
Perms(n, k) == {s \in [1..k -> 1..n] : \A i, j \in 1..k : i # j => s[i] # s[j]}
\* pairs over all 13 declarations, triples over the first 9
MultiDocs(k) ==
  LET pool == IF k = 2 THEN SortPool2 ELSE SortPool
  IN {[fam |-> "multi", focus |-> "vcl", ds |-> [i \in 1..k |-> IF bl[i] THEN Blank(pool[p[i]]) ELSE pool[p[i]]]] :
        p \in Perms(Len(pool), k), bl \in [1..k -> BOOLEAN]}

\* (the if carries a block with its own empty-line group: what is squeezed inside it must not change the padding outside)
GroupPool == <<SetA, LogA, SetS(idC, "=", Cat(sA, idB, TRUE)), Esi, If(Cmp, <<SetA, Blank(LogA)>>, <<>>, NoneObj)>>
GroupDocs(k) ==
  {[fam |-> "group", focus |-> "block",
    ds |-> <<Sub("vcl_recv", <<>>, "", [i \in 1..k |-> IF bl[i] THEN Blank(GroupPool[p[i]]) ELSE GroupPool[p[i]]])>>] :
     p \in Perms(Len(GroupPool), k), bl \in [1..k -> BOOLEAN]}

(***************************************************************************)
(* String literals whose source differs from their value in every way the  *)
(* escape rules allow, in every position a string can take.                *)
(***************************************************************************)
sP2  == Str("/q%3Dx", "\"/q%253Dx\"")          \* %25 followed by an escape: the decoded text still contains one
sP20 == Str("a b", "\"a%20b\"")
sU4  == Str("A", "\"%u0041\"")
sUb  == Str("B", "\"%u{42}\"")
sLP  == Str("l%20m % n", "{\"l%20m % n\"}")     \* long strings are never decoded
sML3 == Str("p\n\n\n q", "{\"p\n\n\n q\"}")  \* two empty lines inside a literal
\* inner lines of a long string that end in a blank or a tab, are empty, or begin with blanks
sMLt == Str("p \n q\t\n\n  r", "{\"p \n q\t\n\n  r\"}")
sNL == Str("x\n   y", "\"x\n   y\"")            \* a double-quoted string written over two lines
EscStrs == {sP2, sP20, sU4, sUb, sLP, sML3, sMLt, sNL}
EscStmts(s) ==
  {SetS(idA, "=", s), AddS(idC, "=", s), ValS("log", "log", s), ValS("synthetic", "synthetic", s),
   ValS("synthetic64", "synthetic.base64", s), ErrorS(Int("601", "601"), s), Call("helper", <<s, idB>>, "parens"),
   FCall("std.collect", <<idA, s>>), SetS(idA, "=", FCallX("regsub", <<idA, s, sB>>)), SetS(idA, "=", Cat(s, idB, TRUE)),
   SetS(idA, "=", Cat(idB, s, FALSE)), SetS(idA, "=", IfX(Cmp, s, sB)), Declare("var.t", "STRING", s),
   If(Infix("==", idA, s), <<Esi>>, <<>>, NoneObj), If(Infix("~", idA, s), <<Esi>>, <<>>, NoneObj),
   If(Cmp, <<Esi>>, <<Elif(W("elsif"), "elsif", Infix("&&", Infix("!=", idB, s), Not), <<LogA>>)>>, NoneObj),
   Switch(FCallX("regsub", <<idA, s, sB>>), <<Case(TestEq(sA), <<Break>>, FALSE)>>)}
  \cup (IF s \in {sLP, sML3, sMLt} THEN {} ELSE {Switch(idA, <<Case(TestEq(s), <<Break>>, FALSE)>>)})      \* a case label is not a long string
EscDecls(s) ==
  {Table("t1", "STRING", <<TProp(s, sB, TRUE)>>), Table("t1", "", <<TProp(sA, s, TRUE)>>), Table("t1", "STRING", <<TProp(s, s, FALSE)>>),
   Backend("b1", <<Prop("bprop", "host", s)>>), Backend("b1", <<Probe(<<Prop("bprop", "request", Cat(s, sB, FALSE))>>)>>),
   Director("d1", "random", <<Prop("dprop", "quorum", s), DBackend(<<DProp("backend", Id("b1")), DProp("weight", s)>>)>>)}
EscDocs ==
  UNION {{[fam |-> "esc", focus |-> x.a.k, ds |-> <<Sub("vcl_recv", <<>>, "", <<x>>)>>] : x \in EscStmts(s)} : s \in EscStrs}
  \cup UNION {{[fam |-> "esc", focus |-> d.a.k, ds |-> <<d>>] : d \in EscDecls(s)} : s \in EscStrs}
  \cup {[fam |-> "esc", focus |-> "return", ds |-> <<Sub("f1", <<Param("STRING", "var.p")>>, "STRING", <<Return(s, "plain")>>)>>] : s \in EscStrs}

(***************************************************************************)
(* Declaration bodies with blank-line groups: properties / entries with    *)
(* and without an empty line in front (comments, incl. ones with an empty  *)
(* line in front of them, come from the placements).                       *)
(***************************************************************************)
BodyItems == <<
  <<pPort, pHost, pSsl>>,
  <<Cidr(FALSE, "10.0.0.0", "8"), Cidr(TRUE, "10.1.0.0", "16"), Cidr(FALSE, "10.2.3.4", "")>>,
  <<TProp(sB, sA, TRUE), TProp(sA, sB, TRUE), TProp(Str("k e", "\"k%20e\""), sA, TRUE)>>,
  <<Prop("dprop", "quorum", Postfix("%", Int("50", "50"))), DBackend(<<DProp("backend", Id("b1")), DProp("weight", i10)>>), Prop("dprop", "retries", i10)>>,
  <<pTime, Probe(<<pThr, pReq>>), pHost>> >>
BodyDecl(k, items) ==
  CASE k = 1 -> Backend("b1", items) [] k = 2 -> Acl("a1", items) [] k = 3 -> Table("t1", "", items)
    [] k = 4 -> Director("d1", "random", items) [] k = 5 -> Backend("b1", items)
PropDocs ==
  {[fam |-> "props", focus |-> BodyDecl(k, <<>>).a.k,
    ds |-> <<BodyDecl(k, [i \in 1..3 |-> IF i > 1 /\ bl[i] THEN Blank(BodyItems[k][i]) ELSE BodyItems[k][i]])>>] :
     k \in 1..5, bl \in [2..3 -> BOOLEAN]}

\* a handful of documents that together have every gap class, for dimensions that multiply (comment spellings x styles)
FewDocs ==
  {[fam |-> "few", focus |-> x.a.k, ds |-> <<Sub("vcl_recv", <<>>, "", <<x>>)>>] :
     x \in {SetS(idA, "=", Cat(sA, FCallX("std.itoa", <<i10>>), TRUE)),
             If(Infix("&&", Cmp, Not), <<Esi>>, <<Elif(W("else") \o W("if"), "else if", Mat, <<LogA>>)>>, Else(<<Restart>>)),
             Switch(idA, <<Case(TestEq(sA), <<LogA, Break>>, FALSE), Case(NoneObj, <<Esi, Break>>, FALSE)>>),
             Return(Id("lookup"), "paren"), Call("helper", <<sA, idB>>, "parens"), Block(<<SetA, LogA>>)}}
  \cup {[fam |-> "few", focus |-> d.a.k, ds |-> <<d>>] :
          d \in {Acl("a1", <<Cidr(FALSE, "10.0.0.0", "8"), Cidr(TRUE, "10.1.0.0", "16")>>), Backend("b1", <<pTime, Probe(<<pThr>>), pHost>>),
                  Table("t1", "STRING", <<TProp(sA, sB, TRUE)>>), Empty("penaltybox", "p1"),
                  Sub("f1", <<Param("STRING", "var.p")>>, "BOOL", <<Return(Cmp, "paren")>>)}}

(***************************************************************************)
(* Expressions whose printing has special cases (comparison operators are  *)
(* glued to their operands, prefix operators, groups, chains) in EVERY     *)
(* position that prints an expression - each position is a different call  *)
(* site of the chunker (notes/LESSONS.md 10).                              *)
(***************************************************************************)
CmpOps == {"==", "!=", "~", "!~", "<", ">", "<=", ">="}
\* `return (x) ...;` is read as the parenthesised form: a value that starts with a group can only be written inside parentheses
RECURSIVE StartsG(_)
StartsG(a) == a.k = "group" \/ (a.k = "infix" /\ StartsG(a.l)) \/ (a.k = "postfix" /\ StartsG(a.left))
RetForms(e) == IF StartsG(e.a) THEN {"paren"} ELSE {"paren", "plain"}
TrickyExprs ==
  {Infix(op, idA, Prefix("!", Group(Infix("~", idB, sRe)))) : op \in CmpOps}                        \* a != !(b ~ "x")
  \cup {Infix(op, Id("var.i"), Prefix("-", Group(i10))) : op \in {"==", "<", ">="}}               \* i < -(10)
  \cup {Infix("&&", Infix("==", idA, Prefix("!", Group(idB))), idC),                              \* a == !(b) && c
        Infix("||", idC, Infix("!=", idA, Prefix("!", Prefix("!", Group(idB))))),
        Infix("==", idA, Group(idB)), Infix("~", Group(idA), Group(sRe)),
        Infix("==", Prefix("!", Group(idA)), Prefix("!", idB)),
        Infix("==", idA, Prefix("-", i10)), Infix("!=", idA, Prefix("!", idB))}
  \cup ChainReturns
  \* a double-quoted literal with a raw line feed, alone and inside a parenthesised group of a compound condition
  \* (the nested-condition printer indents every line of its text: seeded change C14-10)
  \cup {Infix("==", idA, sNL), Infix("&&", idA, Group(Infix("||", idB, Infix("==", idC, sNL))))}
PosStmts(e) ==
  {SetS(idA, "=", e), AddS(idC, "=", e), Declare("var.b", "BOOL", e), ValS("log", "log", e), ValS("synthetic", "synthetic", e),
   ErrorS(Int("601", "601"), e), Call("helper", <<e, idB>>, "parens"), Call("helper", <<idB, e>>, "parens"), FCall("std.collect", <<idA, e>>),
   SetS(idA, "=", FCallX("std.itoa", <<e>>)), SetS(idA, "=", IfX(e, sA, sB)), SetS(idA, "=", IfX(Cmp, e, sB)),
   If(e, <<Esi>>, <<>>, NoneObj), If(Cmp, <<Esi>>, <<Elif(W("elsif"), "elsif", e, <<LogA>>)>>, NoneObj),
   Switch(FCallX("std.itoa", <<e>>), <<Case(TestEq(sA), <<Break>>, FALSE)>>)}
  \cup {Return(e, form) : form \in RetForms(e)}
PosDocs ==
  UNION {{[fam |-> "pos", focus |-> x.a.k, ds |-> <<Sub("vcl_recv", <<>>, "", <<x>>)>>] : x \in PosStmts(e)} : e \in TrickyExprs}
  \cup UNION {{[fam |-> "pos", focus |-> "return", ds |-> <<Sub("f1", <<Param("STRING", "var.p")>>, "BOOL", <<Return(e, form)>>)>>] :
                 form \in RetForms(e)} : e \in TrickyExprs}
  \cup {[fam |-> "pos", focus |-> "backend", ds |-> <<Backend("b1", <<Prop("bprop", "ssl", e), Probe(<<Prop("bprop", "dummy", e)>>)>>)>>] : e \in TrickyExprs}
  \cup {[fam |-> "pos", focus |-> "table", ds |-> <<Director("d1", "random", <<Prop("dprop", "quorum", e)>>)>>] : e \in TrickyExprs}

(***************************************************************************)
(* Width sweep: a few statement shapes whose last operand is a literal of  *)
(* every length 1..SweepMax, so that - at a small line_width - the line    *)
(* ends at every column around the limit (the "exactly at the boundary"    *)
(* class: a width measured from something else than what is printed).      *)
(***************************************************************************)
SweepMax == 46
RECURSIVE Wn(_)
Wn(k) == IF k = 0 THEN "" ELSE "w" \o Wn(k - 1)
Lit(k) == Str(Wn(k), "\"" \o Wn(k) \o "\"")
SweepStmts(k) ==
  {If(Cmp, <<Esi>>, <<Elif(kw[1], kw[2], Infix("==", idA, Cat(sA, Lit(k), TRUE)), <<LogA>>)>>, NoneObj) :
     kw \in {<<W("else") \o W("if"), "else if">>, <<W("elseif"), "elseif">>, <<W("elsif"), "elsif">>}}
  \cup {If(Cmp, <<Esi>>, <<Elif(W("elsif"), "elsif", Infix("&&", Cmp, Infix("==", idB, Lit(k))), <<LogA>>)>>, Else(<<Esi>>)),
        If(Infix("==", idA, Cat(sA, Lit(k), TRUE)), <<Esi>>, <<>>, NoneObj),
        SetS(idA, "=", Cat(Cat(sA, idB, TRUE), Lit(k), TRUE)), SetS(idA, "=", Cat(sA, FCallX("regsub", <<idA, sB, Lit(k)>>), FALSE)),
        Call("helper", <<idA, Lit(k)>>, "parens"), FCall("std.collect", <<idA, Lit(k)>>), ValS("log", "log", Cat(idA, Lit(k), FALSE)),
        ErrorS(Int("601", "601"), Cat(sA, Lit(k), TRUE))}
SweepDocs ==
  UNION {{[fam |-> "sweep", focus |-> x.a.k, ds |-> <<Sub("vcl_recv", <<>>, "", <<x>>)>>] : x \in SweepStmts(k)} : k \in 1..SweepMax}
  \cup {[fam |-> "sweep", focus |-> "return", ds |-> <<Sub("f1", <<Param("STRING", "var.p")>>, "STRING", <<Return(Cat(Cat(sA, idB, TRUE), Lit(k), TRUE), "plain")>>)>>] :
          k \in 1..SweepMax}

DocA(d) == SeqA(d.ds)
DocT(d) == CatT(d.ds)

\* gaps of a template, in source order
GapIdx(t) == {i \in 1..Len(t) : t[i].t = "g"}
IsGap(p) == p.t = "g"
GapSeq(t) == SelectSeq(t, IsGap)
=============================================================================
