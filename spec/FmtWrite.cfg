SPECIFICATION Spec
CONSTANTS
  Inputs = 0
  ShortModes = {"half"}
  MaxFaults = 1
INVARIANTS
  TypeOK
  EmitInv
CHECK_DEADLOCK FALSE
