------------------------------ MODULE FmtWrite ------------------------------
(***************************************************************************)
(* `falco fmt -w FILE` as a sequence of system calls on FILE and on        *)
(* temporary files next to it, with a failing twin for every call, a short *)
(* write for every write, and an external SIGKILL between any two calls.   *)
(*                                                                         *)
(* The protocol is not written down here: it is EXTRACTED from the real    *)
(* binary when the check runs (vhc16 extract: strace of `falco fmt -w` on  *)
(* one file of each input class, filtered to the calls that name FILE or a *)
(* file that is later renamed/linked onto it) and handed to TLC as the     *)
(* constant Inputs.  TLC explores every fault and crash point of every     *)
(* extracted protocol; each explored schedule is then executed on the real *)
(* binary (strace fault injection, RLIMIT_FSIZE, unprivileged runs on      *)
(* read-only files/directories) and the recorded system-call trace is      *)
(* validated by FmtWriteTrace.tla.                                         *)
(*                                                                         *)
(* Two layers (DESIGN.md section 1):                                       *)
(*   requirement  NeverDamaged, FailureKeepsOriginal - the two sentences   *)
(*                of the property statement;                               *)
(*   mechanism    Apply (what each system call does to the contents of the *)
(*                two files), the error-twin / short-write / kill actions  *)
(*                and what the command does after a failed call (reports   *)
(*                it and stops; only a failing close may be ignored).      *)
(***************************************************************************)
EXTENDS Integers, Sequences, FiniteSets, TLC, Json

CONSTANTS
  Inputs,     \* <<[name, fmt, L, olen, opfx, steps, end]>>, one record per (input file, environment) (extracted):
              \*   the environment - ordinary directory, directory not writable for the user, file name so long
              \*   that no temporary sibling can be named, file not writable - is part of the input: the command
              \*   takes other paths there, and every path gets its own fault enumeration
              \*   fmt   what `falco fmt FILE` does: "text" (prints L bytes, exit 0), "fail", "panic"
              \*   L     length of the text `falco fmt FILE` prints (0 when fmt # "text")
              \*   olen  length of the original file
              \*   opfx  k >= 0 when the original bytes are exactly the first k bytes of that text
              \*         (k = L: the file is already formatted; k = 0: the file is empty), else L + 1
              \*   steps the calls `falco fmt -w FILE` issues when nothing goes wrong:
              \*         [op, obj, to, n, res]  op in Ops, obj/to in {"target","tmp","-"}, n = bytes (write),
              \*         res = "ok" / "err": a call may already fail in the undisturbed run (EACCES on the
              \*         temporary file in a read-only directory) - then it has no effect
              \*   end   how that run ended: "ok" / "fail" / "panic"
              \*   left  HISTORY: >= 0 when an earlier run of the command on this path (on a longer file) was killed
              \*         and left a temporary file of that many bytes in the directory; -1 otherwise.  What a
              \*         killed run leaves behind is state that persists between runs: it is the object "left".
  ShortModes, \* subset of {"one", "half", "allbutone"}: lengths of short writes explored
  MaxFaults   \* injected failing calls per run (kill excluded)

Ops == {"open_rd", "open_wr", "open_trunc", "creat", "read", "write", "close", "chmod", "fsync",
        "truncate", "rename", "link", "unlink"}

(***************************************************************************)
(* File contents.  A file holds the original bytes, or the first n bytes   *)
(* of the text `falco fmt FILE` prints, or n such bytes written over the   *)
(* original without truncation, or does not exist.                         *)
(***************************************************************************)
Orig     == [b |-> "orig", n |-> 0]
None     == [b |-> "none", n |-> 0]
New(k)   == [b |-> "new", n |-> k]
Mixed(k) == [b |-> "mixed", n |-> k]
Left(k)  == [b |-> "left", n |-> k]      \* k bytes written by an earlier, killed run (text of another version of the file)
Other    == [b |-> "other", n |-> 0]

\* objects: the file, a temporary file of this run, a file left behind by an earlier run, the directory ("dir":
\* calls on it - open, fsync - have no effect on contents but can fail like any other)
Get(fs, obj) == IF obj = "target" THEN fs.tgt ELSE IF obj = "tmp" THEN fs.tmp ELSE IF obj = "left" THEN fs.left ELSE None
Put(fs, obj, c) == IF obj = "target" THEN [fs EXCEPT !.tgt = c]
                   ELSE IF obj = "tmp" THEN [fs EXCEPT !.tmp = c]
                   ELSE IF obj = "left" THEN [fs EXCEPT !.left = c] ELSE fs

(* mechanism: effect of a system call that succeeded and transferred k bytes *)
Apply(fs, s, k) ==
  LET c == Get(fs, s.obj) IN
  CASE s.op = "open_trunc" -> Put(fs, s.obj, New(0))
    [] s.op = "creat"      -> IF c.b = "none" THEN Put(fs, s.obj, New(0)) ELSE fs
    [] s.op = "truncate"   -> IF c.b = "none" THEN fs ELSE Put(fs, s.obj, New(0))
    [] s.op = "write"      -> IF k = 0 THEN fs
                              ELSE IF c.b = "new"   THEN Put(fs, s.obj, New(c.n + k))
                              ELSE IF c.b = "orig"  THEN Put(fs, s.obj, Mixed(k))
                              ELSE IF c.b = "mixed" THEN Put(fs, s.obj, Mixed(c.n + k))
                              \* written from the start over what the killed run left: its tail survives unless overwritten
                              ELSE IF c.b = "left" THEN Put(fs, s.obj, IF k >= c.n THEN New(k) ELSE Other)
                              ELSE fs
    [] s.op = "rename"     -> IF c.b = "none" THEN fs ELSE Put(Put(fs, s.to, c), s.obj, None)
    [] s.op = "link"       -> IF c.b = "none" THEN fs ELSE Put(fs, s.to, c)
    [] s.op = "unlink"     -> Put(fs, s.obj, None)
    [] OTHER               -> fs

(* what an observer who compares bytes sees: equal byte strings are one value *)
Norm(c, in) ==
  LET c1 == IF c.b = "mixed" /\ c.n >= in.olen THEN New(c.n) ELSE c
  IN  IF c1.b = "new" /\ c1.n = in.opfx THEN Orig ELSE c1

(***************************************************************************)
(* Requirement layer (the property statement, nothing else)                *)
(***************************************************************************)
Fine(c, in) == Norm(c, in) = Orig \/ (in.fmt = "text" /\ Norm(c, in) = Norm(New(in.L), in))
\* "After `falco fmt -w FILE` the file holds either its original bytes or exactly the text that
\*  `falco fmt FILE` prints" - whatever way the command ended, a kill included
ReqNeverDamaged(in, ex, c) == Fine(c, in)
\* "Whenever the command fails ... the file is byte-identical to what it was before"
ReqFailureKeepsOriginal(in, ex, c) == ex \in {"fail", "panic"} => Norm(c, in) = Orig
Viol(in, ex, c) ==
  (IF ReqNeverDamaged(in, ex, c) THEN {} ELSE {"NeverDamaged"}) \cup
  (IF ReqFailureKeepsOriginal(in, ex, c) THEN {} ELSE {"FailureKeepsOriginal"})

(***************************************************************************)
(* Mechanism layer: the run of one command                                 *)
(***************************************************************************)
VARIABLES inp,    \* index into Inputs
          pc,     \* next step of Inputs[inp].steps
          fs,     \* [tgt, tmp] contents
          exit,   \* "running", "ok", "fail", "panic", "killed"
          sched   \* the faults injected so far <<[at, f, k]>>  f in {"err", "short", "kill"}
vars == <<inp, pc, fs, exit, sched>>

In    == Inputs[inp]
Steps == In.steps

Init ==
  /\ inp \in 1..Len(Inputs) /\ pc = 1 /\ exit = "running" /\ sched = <<>>
  /\ fs = [tgt |-> Orig, tmp |-> None, left |-> IF Inputs[inp].left >= 0 THEN Left(Inputs[inp].left) ELSE None]

ShortLens(n) ==
  ({1 : m \in ShortModes \cap {"one"}} \cup {n \div 2 : m \in ShortModes \cap {"half"}}
     \cup {n - 1 : m \in ShortModes \cap {"allbutone"}}) \cap (1..(n - 1))

\* after a failed call the command may or may not remove its temporary file (the statement is silent)
Cleanups(f) == {f, [f EXCEPT !.tmp = None]}

StepOK ==
  /\ exit = "running" /\ pc <= Len(Steps)
  /\ fs' = IF Steps[pc].res = "ok" THEN Apply(fs, Steps[pc], Steps[pc].n) ELSE fs
  /\ pc' = pc + 1 /\ UNCHANGED <<inp, exit, sched>>

\* the call fails without effect (injected at its entry).  Three fault modes:
\*   "err"   one call fails with a hard errno (EACCES, ENOSPC, EIO ...)
\*   "tmp"   one call fails with a transient errno (EINTR, EAGAIN, ESTALE): besides reporting it the command (or the Go
\*           runtime under it, which repeats calls interrupted by EINTR) may issue the call again and carry on
\*   "perr"  PERSISTENT: this call and every later call of the same kind fail (a rename that never works, a full disk).
\*           The mechanism layer says what the code does today - it reports the first failure and touches nothing else;
\*           code that tries something else after the failure shows in the recorded trace and is judged on the bytes
\*           it leaves.  Persistent faults are also environments ("perr:<op>", the protocol is re-extracted under them).
StepErr ==
  /\ exit = "running" /\ pc <= Len(Steps) /\ Len(sched) < MaxFaults /\ Steps[pc].res = "ok"
  /\ \E f \in {"err", "tmp", "perr"} :
       /\ sched' = Append(sched, [at |-> pc, f |-> f, k |-> 0])
       /\ \/ /\ exit' = "fail" /\ fs' \in Cleanups(fs) /\ pc' = pc        \* reported, nothing else is touched
          \/ /\ Steps[pc].op = "close" /\ f # "perr"                       \* a failing close may go unnoticed
             /\ exit' = exit /\ fs' = fs /\ pc' = pc + 1
          \/ /\ f = "tmp"                                                 \* the call is issued again
             /\ exit' = exit /\ fs' = fs /\ pc' = pc
  /\ UNCHANGED inp

\* the write transfers k < n bytes and the rest fails (file size limit, disk full)
StepShort ==
  /\ exit = "running" /\ pc <= Len(Steps) /\ Len(sched) < MaxFaults
  /\ Steps[pc].op = "write" /\ Steps[pc].res = "ok"
  /\ \E k \in ShortLens(Steps[pc].n) :
       /\ sched' = Append(sched, [at |-> pc, f |-> "short", k |-> k])
       /\ fs' \in Cleanups(Apply(fs, Steps[pc], k))
  /\ exit' = "fail" /\ pc' = pc /\ UNCHANGED inp

\* SIGKILL on entry to step pc (pc = Len + 1: on entry to exit_group)
Crash ==
  /\ exit = "running" /\ sched = <<>> /\ pc <= Len(Steps) + 1
  /\ sched' = <<[at |-> pc, f |-> "kill", k |-> 0]>>
  /\ exit' = "killed" /\ UNCHANGED <<inp, pc, fs>>

Finish ==
  /\ exit = "running" /\ pc = Len(Steps) + 1
  /\ exit' = In.end /\ UNCHANGED <<inp, pc, fs, sched>>

(* `falco fmt -w a b c` rewrites several files with one command.  The files are independent: the run is   *)
(* the product of one such machine per file, and the requirement is stated per file (FmtWriteTrace     *)
(* judges every file of a multi-file run on its own: its bytes, its original, the text fmt prints for it). *)
Next == StepOK \/ StepErr \/ StepShort \/ Crash \/ Finish
Spec == Init /\ [][Next]_vars

TypeOK ==
  /\ exit \in {"running", "ok", "fail", "panic", "killed"}
  /\ fs.tgt.b \in {"orig", "new", "mixed", "none", "left", "other"} /\ fs.tmp.b \in {"orig", "new", "mixed", "none", "left", "other"}
  /\ \A i \in 1..Len(Inputs) : \A j \in 1..Len(Inputs[i].steps) : Inputs[i].steps[j].op \in Ops

(* mechanism |= requirement: checked by FmtWriteReq.cfg.  NeverDamaged is  *)
(* an invariant of every state because a kill can end the run in any.      *)
NeverDamaged         == ReqNeverDamaged(In, exit, fs.tgt)
FailureKeepsOriginal == ReqFailureKeepsOriginal(In, exit, fs.tgt)
\* mechanism expectation, not demanded by the statement: a run that reports success wrote the text
SuccessIsNew == (exit = "ok" /\ In.fmt = "text") => Norm(fs.tgt, In) = Norm(New(In.L), In)

(* behaviours for replay: one per terminal state *)
Emit ==
  exit # "running" =>
    PrintT(<<"BEHAVIOUR", ToJson([inp |-> In.name, sched |-> sched, exit |-> exit,
                                  file |-> Norm(fs.tgt, In), tmp |-> fs.tmp.b # "none",
                                  viol |-> Viol(In, exit, fs.tgt)])>>)
EmitInv == Emit
=============================================================================
