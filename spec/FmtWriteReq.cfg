SPECIFICATION Spec
CONSTANTS
  Inputs = 0
  ShortModes = {"half"}
  MaxFaults = 1
INVARIANTS
  TypeOK
  NeverDamaged
  FailureKeepsOriginal
CHECK_DEADLOCK FALSE
