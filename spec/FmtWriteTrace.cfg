SPECIFICATION TraceSpec
CONSTANTS
  Inputs = 0
  ShortModes = {"half"}
  MaxFaults = 1
  TraceFile = "traces.ndjson"
INVARIANTS
  AcceptInv
CHECK_DEADLOCK FALSE
