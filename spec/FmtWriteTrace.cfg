SPECIFICATION TraceSpec
CONSTANTS
  Inputs = 0
  ShortModes = {"half"}
  MaxFaults = 1
  TraceFile = "traces.ndjson"
  Files = 0
INVARIANTS
  AcceptInv
CHECK_DEADLOCK FALSE
