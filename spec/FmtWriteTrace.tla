--------------------------- MODULE FmtWriteTrace ---------------------------
(***************************************************************************)
(* Trace validation for FmtWrite (code -> spec).  One trace = one run of   *)
(* the real `falco fmt -w FILE` under strace: the system calls on FILE and *)
(* its temporary files in the order they were issued, each with its result *)
(* ("ok" with the byte count, "err", "killed" = entered and never          *)
(* returned), the way the process ended, and the contents of FILE          *)
(* afterwards as the harness classified them by comparing bytes.           *)
(*                                                                         *)
(* For every trace TLC                                                     *)
(*   - folds the mechanism's Apply over the recorded calls and reports     *)
(*     whether that explains the bytes found afterwards (explained),       *)
(*   - reports whether the calls follow the extracted protocol (follows),  *)
(*   - evaluates the requirement layer on what was OBSERVED (viol) - this  *)
(*     is what decides the check.                                          *)
(* Traces are independent initial states; every trace ends in one ACCEPT   *)
(* line.                                                                   *)
(***************************************************************************)
EXTENDS FmtWrite

CONSTANTS TraceFile,
          Files      \* files of multi-file runs: records like Inputs without steps (their calls are not recorded)
Traces == ndJsonDeserialize(TraceFile)
AllIn == Inputs \o Files

VARIABLE t
tvars == <<vars, t>>

Obs == Traces[t]
Evs == Obs.events
InputIndex(name) == CHOOSE k \in 1..Len(AllIn) : AllIn[k].name = name
TIn == AllIn[inp]
Recorded == inp <= Len(Inputs)          \* the calls of this run were recorded

TraceInit ==
  /\ t \in 1..Len(Traces)
  /\ inp = InputIndex(Traces[t].inp)
  /\ pc = 1 /\ exit = "running" /\ sched = <<>>
  /\ fs = [tgt |-> Orig, tmp |-> None,
           left |-> IF AllIn[InputIndex(Traces[t].inp)].left >= 0 THEN Left(AllIn[InputIndex(Traces[t].inp)].left) ELSE None]

TraceStep ==
  /\ exit = "running" /\ pc <= Len(Evs)
  /\ fs' = IF Evs[pc].res = "ok" THEN Apply(fs, Evs[pc], Evs[pc].n) ELSE fs
  /\ pc' = pc + 1 /\ UNCHANGED <<inp, exit, sched, t>>

TraceEnd ==
  /\ exit = "running" /\ pc = Len(Evs) + 1
  /\ exit' = Obs.exit /\ UNCHANGED <<inp, pc, fs, sched, t>>

TraceNext == TraceStep \/ TraceEnd
TraceSpec == TraceInit /\ [][TraceNext]_tvars

Min(a, b) == IF a < b THEN a ELSE b
\* as long as every earlier call succeeded (and wrote all it was asked to), the next call is the one the extracted protocol has there
Follows ==
  ~Recorded \/
  \A m \in 1..Min(Len(Evs), Len(Steps)) :
     (\A q \in 1..(m - 1) : Evs[q].res = "ok" /\ (Evs[q].op = "write" => Evs[q].n = Steps[q].n))
        => (Evs[m].op = Steps[m].op /\ Evs[m].obj = Steps[m].obj)

AcceptInv ==
  exit # "running" =>
    PrintT(<<"BEHAVIOUR", ToJson([accept |-> Obs.id,
                                  explained |-> (~Recorded \/ Norm(fs.tgt, TIn) = Obs.file),
                                  model |-> Norm(fs.tgt, TIn),
                                  follows |-> Follows,
                                  viol |-> Viol(TIn, Obs.exit, Obs.file)])>>)
=============================================================================
