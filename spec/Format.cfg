SPECIFICATION Spec
CONSTANTS
  DocSet = "unit"
  CfgSet = "singles"
  MaxComments = 0
  OnlyDocumented = TRUE
  Specials = FALSE
INVARIANTS
  Preserved
  CommentsKept
  Commute
  Emit
PROPERTIES
  Idempotent
CHECK_DEADLOCK FALSE
