SPECIFICATION Spec
CONSTANTS
  Plans <- DefaultPlans
INVARIANTS
  Preserved
  CommentsKept
  Commute
  Emit
PROPERTIES
  Idempotent
CHECK_DEADLOCK FALSE
