------------------------------- MODULE Format -------------------------------
(***************************************************************************)
(* `falco fmt` as a transformation of abstract documents.                  *)
(*                                                                         *)
(* State: a document (FmtDoc.tla: syntax + comment gaps), the comments     *)
(* written into some of its gaps, a formatter configuration, and the       *)
(* current (abstract syntax, comment list) pair.  Action Format rewrites   *)
(* the pair; it is taken twice.                                            *)
(*                                                                         *)
(* REQUIREMENT layer (property text + docs/formatter.md, docs/parser.md):  *)
(*   C03  ReqEquiv(in, out, cfg): the trees are equal in every             *)
(*        declaration, statement, operator, identifier, argument and       *)
(*        literal value; only the documented rewrites may differ.          *)
(*   C15  ReqComments: every comment survives exactly once, text           *)
(*        unchanged up to the marker style, order kept (order inside a     *)
(*        declaration only, when a sorting option is on).                  *)
(*   C14  the second Format is a stuttering step.                          *)
(* MECHANISM layer (formatter/*.go): Normalize - what the printers do to   *)
(* each node (remove->unset, keyword / parenthesis / `+` / trailing-comma  *)
(* spelling, insertion sort of property lines with the isObject            *)
(* comparator of lines.go, Declarations.Sort), Restyle - what              *)
(* formatCommentCharacter does to a marker.                                *)
(* TLC checks mechanism |= requirement for every generated document x      *)
(* configuration and prints each case with the values it predicts.         *)
(***************************************************************************)
EXTENDS FmtDoc, Integers, Json

\* A run explores a set of plans; a plan names a document family, a configuration set and the comment placements:
\*   doc  "unit" | "esc" | "multi" | "multi2" | "group" | "group2" | "props" | "sortdocs"
\*   cfg  "default" | "singles" | "pairs" | "sempairs" | "comment" | "style" | "style3" | "align" | ... | "any"
\*   mc   0, 1 or 2 comments per document;  od  documented gaps only;  sp  also the special spellings and texts
CONSTANT Plans
DefaultPlans == {[doc |-> "unit", cfg |-> "singles", mc |-> 0, od |-> TRUE, sp |-> FALSE]}

VARIABLES plan, doc, cfg, cm, phase, ast, cms
DocSet == plan.doc   CfgSet == plan.cfg   MaxComments == plan.mc   OnlyDocumented == plan.od   Specials == plan.sp
vars == <<plan, doc, cfg, cm, phase, ast, cms>>

(***************************************************************************)
(* Configurations (config/config.go FormatConfig, defaults from its tags)  *)
(***************************************************************************)
Default ==
  [indent_width |-> 2, trailing_comment_width |-> 1, indent_style |-> "space", line_width |-> 120,
   explicit_string_concat |-> TRUE, sort_declaration_property |-> FALSE, align_declaration_property |-> FALSE,
   else_if |-> FALSE, always_next_line_else_if |-> FALSE, return_statement_parenthesis |-> TRUE,
   sort_declaration |-> FALSE, align_trailing_comment |-> FALSE, comment_style |-> "none",
   should_use_unset |-> FALSE, indent_case_labels |-> FALSE, break_compound_conditions |-> TRUE]

Deviations ==
  {<<"indent_width", 1>>, <<"indent_width", 4>>, <<"indent_width", 8>>, <<"indent_style", "tab">>,
   <<"line_width", -1>>, <<"line_width", 20>>, <<"line_width", 40>>, <<"line_width", 80>>,
   <<"trailing_comment_width", 3>>,
   <<"explicit_string_concat", FALSE>>, <<"sort_declaration_property", TRUE>>, <<"align_declaration_property", TRUE>>,
   <<"else_if", TRUE>>, <<"always_next_line_else_if", TRUE>>, <<"return_statement_parenthesis", FALSE>>,
   <<"sort_declaration", TRUE>>, <<"align_trailing_comment", TRUE>>, <<"should_use_unset", TRUE>>,
   <<"indent_case_labels", TRUE>>, <<"break_compound_conditions", FALSE>>,
   <<"comment_style", "sharp">>, <<"comment_style", "slash">>}
\* the options that matter where comments are printed
CommentDeviations ==
  {<<"comment_style", "sharp">>, <<"comment_style", "slash">>, <<"align_trailing_comment", TRUE>>,
   <<"trailing_comment_width", 3>>, <<"line_width", 20>>, <<"indent_style", "tab">>, <<"always_next_line_else_if", TRUE>>,
   <<"sort_declaration_property", TRUE>>, <<"return_statement_parenthesis", FALSE>>, <<"indent_case_labels", TRUE>>}
StyleDeviations ==
  {<<"comment_style", "sharp">>, <<"comment_style", "slash">>, <<"align_trailing_comment", TRUE>>, <<"line_width", 20>>,
   <<"sort_declaration_property", TRUE>>}
\* the options that rewrite or re-break code
SemPairDeviations ==
  {<<"should_use_unset", TRUE>>, <<"sort_declaration_property", TRUE>>, <<"sort_declaration", TRUE>>, <<"else_if", TRUE>>,
   <<"return_statement_parenthesis", FALSE>>, <<"explicit_string_concat", FALSE>>, <<"line_width", 20>>,
   <<"break_compound_conditions", FALSE>>, <<"indent_case_labels", TRUE>>, <<"always_next_line_else_if", TRUE>>}
With(c, d) == [c EXCEPT ![d[1]] = d[2]]
Singles == {With(Default, d) : d \in Deviations}
Pairs   == {With(With(Default, d1), d2) : d1 \in Deviations, d2 \in Deviations}   \* includes the singles (d1 = d2)
Cfgs == CASE CfgSet = "default" -> {Default}
          [] CfgSet = "singles" -> {Default} \cup Singles
          [] CfgSet = "comment" -> {Default} \cup {With(Default, d) : d \in CommentDeviations}
          [] CfgSet = "style3"  -> {Default, With(Default, <<"comment_style", "sharp">>), With(Default, <<"comment_style", "slash">>),
                                    With(Default, <<"return_statement_parenthesis", FALSE>>)}
          [] CfgSet = "restyle" -> {With(Default, <<"comment_style", "sharp">>), With(Default, <<"comment_style", "slash">>)}
          [] CfgSet = "style"   -> {Default} \cup {With(Default, d) : d \in StyleDeviations}
          [] CfgSet = "align"   -> {Default, With(Default, <<"align_trailing_comment", TRUE>>),
                                    With(With(Default, <<"align_trailing_comment", TRUE>>), <<"trailing_comment_width", 3>>)}
          [] CfgSet = "sort"    -> {Default, With(Default, <<"sort_declaration", TRUE>>), With(Default, <<"align_trailing_comment", TRUE>>),
                                    With(With(Default, <<"sort_declaration", TRUE>>), <<"sort_declaration_property", TRUE>>),
                                    With(With(Default, <<"sort_declaration", TRUE>>), <<"comment_style", "slash">>)}
          [] CfgSet = "align2"  -> {Default, With(With(Default, <<"align_trailing_comment", TRUE>>), <<"trailing_comment_width", 3>>)}
          [] CfgSet = "propcfg" -> {Default, With(Default, <<"sort_declaration_property", TRUE>>), With(Default, <<"align_declaration_property", TRUE>>),
                                    With(Default, <<"align_trailing_comment", TRUE>>),
                                    With(With(With(Default, <<"sort_declaration_property", TRUE>>), <<"align_declaration_property", TRUE>>),
                                         <<"align_trailing_comment", TRUE>>)}
          [] CfgSet = "propcfg2" -> {Default, With(Default, <<"align_trailing_comment", TRUE>>), With(With(With(Default, <<"sort_declaration_property", TRUE>>), <<"align_declaration_property", TRUE>>),
                                                   <<"align_trailing_comment", TRUE>>)}
          [] CfgSet = "sweep"   -> {With(Default, <<"line_width", 40>>), With(With(Default, <<"line_width", 40>>), <<"else_if", TRUE>>),
                                    With(With(With(Default, <<"line_width", 40>>), <<"else_if", TRUE>>), <<"break_compound_conditions", FALSE>>),
                                    With(With(Default, <<"line_width", 40>>), <<"explicit_string_concat", FALSE>>),
                                    With(With(With(Default, <<"line_width", 40>>), <<"indent_width", 4>>), <<"always_next_line_else_if", TRUE>>)}
          [] CfgSet = "sortonly" -> {With(Default, <<"sort_declaration", TRUE>>),
                                     With(With(Default, <<"sort_declaration", TRUE>>), <<"sort_declaration_property", TRUE>>)}
          [] CfgSet = "sempairs" -> {Default} \cup {With(With(Default, d1), d2) : d1 \in SemPairDeviations, d2 \in SemPairDeviations}
          [] CfgSet = "pairs"   -> {Default} \cup Pairs
          [] CfgSet = "any"     -> {Default}      \* simulation draws RandomCfg instead

(***************************************************************************)
(* Generic structure of the abstract syntax: which fields hold children    *)
(***************************************************************************)
Kids(k) ==
  CASE k \in {"prop", "tprop", "set", "add", "declare", "log", "synthetic", "synthetic64"} -> {"value"}
    [] k = "error" -> {"code", "arg"}    [] k = "return" -> {"expr"}
    [] k = "if" -> {"cond", "else"}      [] k = "elif" -> {"cond"}
    [] k = "switch" -> {"control"}       [] k = "case" -> {"test"}          [] k = "test" -> {"right"}
    [] k = "prefix" -> {"right"}         [] k = "infix" -> {"l", "r"}       [] k = "postfix" -> {"left"}
    [] k = "group" -> {"e"}              [] k = "ifx" -> {"c", "a", "b"}
    [] OTHER -> {}
KidSeqs(k) ==
  CASE k = "acl" -> {"cidrs"}
    [] k \in {"backend", "director", "table", "probe", "dbackend"} -> {"props"}
    [] k = "sub" -> {"params", "body"}   [] k \in {"block", "else"} -> {"body"}
    [] k \in {"call", "fcall", "fcallx"} -> {"args"}
    [] k = "if" -> {"then", "elifs"}     [] k = "elif" -> {"then"}
    [] k = "switch" -> {"cases"}         [] k = "case" -> {"body"}
    [] OTHER -> {}
Sortable == {"backend", "director", "table", "probe", "dbackend"}
PFields == {"p_blank", "p_kw", "p_paren", "p_explicit", "p_comma", "p_lead"}

Range(s) == {s[i] : i \in DOMAIN s}
Bag(s) == [e \in Range(s) |-> Cardinality({i \in DOMAIN s : s[i] = e})]

(***************************************************************************)
(* REQUIREMENT.  Canon erases exactly what the property lets differ:       *)
(* presentational fields always; remove/unset under should_use_unset;      *)
(* property order under sort_declaration_property.                         *)
(***************************************************************************)
RECURSIVE Canon(_, _)
Canon(x, c) ==
  LET y == [f \in (DOMAIN x \ PFields) |->
              IF f \in Kids(x.k) THEN Canon(x[f], c)
              ELSE IF f \in KidSeqs(x.k) THEN [i \in DOMAIN x[f] |-> Canon(x[f][i], c)]
              ELSE x[f]]
  IN CASE y.k = "remove" /\ c.should_use_unset -> [y EXCEPT !.k = "unset"]
       [] y.k \in Sortable /\ c.sort_declaration_property -> [y EXCEPT !.props = Bag(@)]
       [] OTHER -> y

FastlySubs == <<"vcl_recv", "vcl_hash", "vcl_hit", "vcl_miss", "vcl_pass", "vcl_fetch", "vcl_error", "vcl_deliver", "vcl_log">>
FastlyRank(n) == CHOOSE i \in 1..Len(FastlySubs) : FastlySubs[i] = n
IsFastly(n) == \E i \in 1..Len(FastlySubs) : FastlySubs[i] = n
\* docs/formatter.md "Sort Declaration": import/include, acl, backend, director, table, vcl_recv .. vcl_log, other subs
\* (penaltybox and ratecounter are not listed: the requirement leaves them anywhere before the subroutines)
Category(d) ==
  CASE d.k \in {"import", "include"} -> 1  [] d.k = "acl" -> 2  [] d.k = "backend" -> 3  [] d.k = "director" -> 4
    [] d.k = "table" -> 5  [] d.k \in {"penaltybox", "ratecounter"} -> 0
    [] d.k = "sub" -> IF IsFastly(d.name) THEN 5 + FastlyRank(d.name) ELSE 15
    [] OTHER -> 0
CategoryOrdered(ds) ==
  /\ \A i, j \in DOMAIN ds : (i < j /\ Category(ds[i]) # 0 /\ Category(ds[j]) # 0) => Category(ds[i]) <= Category(ds[j])
  /\ \A i2, j2 \in DOMAIN ds : (i2 < j2 /\ ds[j2].k # "sub") => ds[i2].k # "sub"

CanonDoc(ds, c) == [i \in DOMAIN ds |-> Canon(ds[i], c)]
ReqEquiv(in, out, c) ==
  IF c.sort_declaration
  THEN Bag(CanonDoc(in, c)) = Bag(CanonDoc(out, c)) /\ CategoryOrdered(out)
  ELSE CanonDoc(in, c) = CanonDoc(out, c)

(***************************************************************************)
(* MECHANISM.  Normalize: what the printers of formatter/*.go do.          *)
(***************************************************************************)
\* lines.go DeclarationPropertyLines.Sort: sort.Slice (insertion sort below 12 elements) with
\*   less(i, j) == ~isObject(i) /\ Key(i) < Key(j)
\* keys of the generated documents, in byte order of the printed key
KeyOrder == <<"\"a\"", "\"b\"", "\"k%20e\"", "\"l\"q\"", ".backend", ".connect_timeout", ".host", ".port", ".probe", ".quorum", ".request",
              ".retries", ".ssl", ".threshold", ".weight">>
\* the printed key of a table line is the source literal (escapes kept)
KeyText(p) == IF p.k = "tprop" THEN (IF p.key = "k e" THEN "\"k%20e\"" ELSE "\"" \o p.key \o "\"") ELSE "." \o p.key
KeyRank(p) == CHOOSE i \in 1..Len(KeyOrder) : KeyOrder[i] = KeyText(p)
IsObj(p) == p.k = "dbackend" \/ (p.k = "prop" /\ p.value.k = "probe")
\* the key of a probe line is ".probe", the key of a director backend object is its text "{ ... }" ('{' sorts after '.')
Less(p, q) == /\ ~IsObj(p)
              /\ CASE q.k = "dbackend" -> TRUE
                    [] IsObj(q)        -> KeyRank(p) < KeyRank([k |-> "prop", key |-> "probe"])
                    [] OTHER           -> KeyRank(p) < KeyRank(q)
RECURSIVE Sink(_, _)
\* one inner loop of insertion sort: move element j down while it is less than its predecessor
Sink(s, j) == IF j > 1 /\ Less(s[j], s[j - 1])
              THEN Sink([s EXCEPT ![j] = s[j - 1], ![j - 1] = s[j]], j - 1) ELSE s
RECURSIVE InsSortFrom(_, _)
InsSortFrom(s, i) == IF i > Len(s) THEN s ELSE InsSortFrom(Sink(s, i), i + 1)
\* properties are sorted inside blank-line groups; a director backend object `{ ... }` sorts its fields by key value
RECURSIVE GroupsOf(_)
GroupsOf(s) ==   \* split at elements with p_blank
  IF s = <<>> THEN <<>>
  ELSE LET rest == GroupsOf(Tail(s))
       IN IF rest = <<>> \/ (Len(s) > 1 /\ s[2].p_blank) THEN <<<<s[1]>>>> \o rest
          ELSE <<<<s[1]>> \o rest[1]>> \o Tail(rest)
RECURSIVE Flatten(_)
Flatten(gs) == IF gs = <<>> THEN <<>> ELSE gs[1] \o Flatten(Tail(gs))
\* the blank line stays in front of the group, whichever line is sorted first
SortGroup(g) == LET r == InsSortFrom(g, 2) IN [i \in DOMAIN r |-> [r[i] EXCEPT !.p_blank = (i = 1 /\ g[1].p_blank)]]
SortProps(s) == LET gs == GroupsOf(s) IN Flatten([i \in DOMAIN gs |-> SortGroup(gs[i])])

\* lines.go Declarations.Sort: others by (type, name), fastly subroutines by lifecycle order, user subroutines by name
TypeRank(d) == CASE d.k = "import" -> 1 [] d.k = "include" -> 2 [] d.k = "acl" -> 3 [] d.k = "backend" -> 4 [] d.k = "director" -> 5
                 [] d.k = "table" -> 6 [] d.k = "penaltybox" -> 7 [] d.k = "ratecounter" -> 8 [] OTHER -> 9
NameOrder == <<"", "a0", "a1", "aaa", "b1", "d1", "f1", "f2", "f3", "geo", "helper", "mod", "p1", "r1", "t1">>
DeclName(d) == IF d.k \in {"import", "include"} THEN "" ELSE d.name
NameRank(d) == CHOOSE i \in 1..Len(NameOrder) : NameOrder[i] = DeclName(d)
DeclKey(d) ==   \* lexicographic key as one number
  IF d.k = "sub" THEN (IF IsFastly(d.name) THEN 1000 + FastlyRank(d.name) ELSE 2000 + NameRank(d))
  ELSE TypeRank(d) * 50 + NameRank(d)
RECURSIVE SinkD(_, _)
SinkD(s, j) == IF j > 1 /\ DeclKey(s[j]) < DeclKey(s[j - 1])
               THEN SinkD([s EXCEPT ![j] = s[j - 1], ![j - 1] = s[j]], j - 1) ELSE s
RECURSIVE SortDeclsFrom(_, _)
SortDeclsFrom(s, i) == IF i > Len(s) THEN s ELSE SortDeclsFrom(SinkD(s, i), i + 1)

DropFirst(body) == IF body # <<>> /\ body[1].k = "block" THEN [body EXCEPT ![1].p_blank = FALSE] ELSE body
FirstBlockBlank(y) ==
  CASE y.k \in {"sub", "block", "else", "case"} -> [y EXCEPT !.body = DropFirst(@)]
    [] y.k \in {"elif", "if"} -> [y EXCEPT !.then = DropFirst(@)]
RECURSIVE StartsGroup(_)
StartsGroup(e) == e.k = "group" \/ (e.k = "infix" /\ StartsGroup(e.l)) \/ (e.k = "postfix" /\ StartsGroup(e.left))
RECURSIVE Norm(_, _, _)
Norm(x, c, fn) ==
  LET y == [f \in DOMAIN x |->
              IF f \in Kids(x.k) THEN Norm(x[f], c, fn)
              ELSE IF f \in KidSeqs(x.k) THEN [i \in DOMAIN x[f] |-> Norm(x[f][i], c, fn)]
              ELSE x[f]]
  IN CASE y.k = "remove" /\ c.should_use_unset -> [y EXCEPT !.k = "unset"]                     \* formatRemoveStatement
       [] y.k = "elif" -> [y EXCEPT !.p_kw = IF c.else_if THEN "else if" ELSE @]               \* formatIfStatement
       [] y.k = "return" /\ y.expr.k # "none" ->                                               \* formatReturnStatement
            \* (the parentheses stay when the printed expression itself would start with one)
            [y EXCEPT !.p_paren = (c.return_statement_parenthesis /\ ~fn) \/ StartsGroup(y.expr)]
       [] y.k = "infix" /\ y.op = "+" -> [y EXCEPT !.p_explicit = c.explicit_string_concat]    \* formatInfixExpression
       [] y.k = "tprop" -> [y EXCEPT !.p_comma = TRUE]                                         \* EndCharacter ","
       \* formatStatement: a bare block gets its empty line only from the line grouping, i.e. not as the first statement
       [] y.k \in {"sub", "block", "else", "elif", "if", "case"} -> FirstBlockBlank(y)
       [] y.k \in {"backend", "director", "table", "probe"} /\ c.sort_declaration_property -> [y EXCEPT !.props = SortProps(@)]
       [] y.k = "dbackend" /\ c.sort_declaration_property -> [y EXCEPT !.props = InsSortFrom(@, 2)]
       [] OTHER -> y
NormDecl(d, c) == Norm(d, c, d.k = "sub" /\ d.rtype # "")
\* Formatter.Format: the output never starts with an empty line (decided after sorting, by position)
FirstBlank(ds) == IF ds # <<>> /\ ~ds[1].p_lead THEN [ds EXCEPT ![1].p_blank = FALSE] ELSE ds
Normalize(ds, c) ==
  LET n == [i \in DOMAIN ds |-> NormDecl(ds[i], c)]
  IN FirstBlank(IF c.sort_declaration THEN SortDeclsFrom(n, 2) ELSE n)

\* helper.go formatCommentCharacter: every leading marker character is replaced; /* */ is left alone.
\* The marker classes are "#" (a run of #), "//" (a run of two or more /) and "/*".
RestyleM(m, style) ==
  CASE m = "/*" -> m
    [] style = "sharp" -> "#"
    [] style = "slash" -> "//"
    [] OTHER -> m
\* formatComment: a #FASTLY macro keeps its marker (it would stop being a macro)
Restyle(cs, c) == [i \in DOMAIN cs |-> IF cs[i].sp = "fastly" THEN cs[i] ELSE [cs[i] EXCEPT !.m = RestyleM(@, c.comment_style)]]

\* C15 requirement, as a relation between the comments written and the comments found: every comment exactly
\* once, payload unchanged, order kept (as a multiset under the sorting options, which move comments with their
\* node).  The marker may be what comment_style says or the original one (the property allows the difference,
\* it does not demand it; the mechanism layer - Restyle - predicts which).
MarkerOK(i, o, c) == o.body = i.body /\ o.m \in {i.m, RestyleM(i.m, c.comment_style)}
Bodies(cs) == [j \in DOMAIN cs |-> cs[j].body]
ReqComments(in, out, c) ==
  IF c.sort_declaration \/ c.sort_declaration_property
  THEN /\ Bag(Bodies(in)) = Bag(Bodies(out))
       /\ \A j \in DOMAIN out : \E i \in DOMAIN in : MarkerOK(in[i], out[j], c)
  ELSE /\ Len(in) = Len(out)
       /\ \A j \in DOMAIN in : MarkerOK(in[j], out[j], c)

(***************************************************************************)
(* Comment placements: which gaps get a comment, with which marker         *)
(***************************************************************************)
Markers == {"#", "//", "/*"}
Docs == CASE DocSet = "unit"   -> UnitDocs
          [] DocSet = "multi"  -> MultiDocs(2) \cup MultiDocs(3)
          [] DocSet = "multi2" -> MultiDocs(2)
          [] DocSet = "group"  -> GroupDocs(2) \cup GroupDocs(3)
          [] DocSet = "group2" -> GroupDocs(2)
          [] DocSet = "esc"    -> EscDocs
          [] DocSet = "few"    -> FewDocs
          [] DocSet = "sweep"  -> SweepDocs
          [] DocSet = "pos"    -> PosDocs
          [] DocSet = "props"  -> PropDocs
          [] DocSet = "sortdocs" -> {d \in MultiDocs(2) : \A i \in DOMAIN d.ds : ~d.ds[i].a.p_blank}
Eligible(gs) == {i \in DOMAIN gs : (~OnlyDocumented) \/ gs[i].d}
OneAt(gs, i) ==
  {[at |-> i, m |-> m, sp |-> "plain", body |-> i] : m \in Markers}
  \* other spellings of an ordinary comment: a run of marker characters (## / ///), a block comment over two lines,
  \* and - on a line of its own - an empty line in front of the comment
  \* "bare": the comment is only its marker (#, //, /**/); "run3": ### ; "mix": the other family's character right after
  \* the marker (#/x, //#x); "star": a star right after a # (#*x - with comment_style slash it must not become /*x)
  \cup (IF Specials THEN {[at |-> i, m |-> "#", sp |-> "run", body |-> i], [at |-> i, m |-> "//", sp |-> "run", body |-> i],
                            [at |-> i, m |-> "/*", sp |-> "twolines", body |-> i],
                            [at |-> i, m |-> "#", sp |-> "bare", body |-> i], [at |-> i, m |-> "//", sp |-> "bare", body |-> i],
                            [at |-> i, m |-> "/*", sp |-> "bare", body |-> i], [at |-> i, m |-> "#", sp |-> "run3", body |-> i],
                            [at |-> i, m |-> "#", sp |-> "mix", body |-> i], [at |-> i, m |-> "//", sp |-> "mix", body |-> i],
                            [at |-> i, m |-> "#", sp |-> "star", body |-> i]}
                           \* an empty line in front of the comment: on a line of its own, or inside a statement /
                           \* expression (`a &&<LF><LF>  # c<LF>  b`)
                           \cup (IF gs[i].c \in {"lead", "inner", "in"}
                                 THEN {[at |-> i, m |-> "#", sp |-> "blankbefore", body |-> i], [at |-> i, m |-> "/*", sp |-> "blankbefore", body |-> i]}
                                 ELSE {})
        ELSE {})
  \cup (IF Specials /\ gs[i].c = "lead" /\ gs[i].l = "lead"
        THEN {[at |-> i, m |-> "#", sp |-> "fastly", body |-> i], [at |-> i, m |-> "#", sp |-> "ignore", body |-> i],
              [at |-> i, m |-> "//", sp |-> "scope", body |-> i]}
        ELSE {})
Placements(d) ==
  LET gs == GapSeq(DocT(d))
      el == Eligible(gs)
  IN {<<>>}
     \cup (IF MaxComments >= 1 THEN {<<c>> : c \in UNION {OneAt(gs, i) : i \in el}} ELSE {})
     \cup (IF MaxComments >= 2
           \* (two comments in the same end-of-line gap: only a block comment can be followed by another comment there)
           THEN UNION {{<<c1, c2>> : c1 \in {x \in OneAt(gs, ij[1]) : ij[1] # ij[2] \/ gs[ij[1]].c # "trail" \/ x.m = "/*"},
                                      c2 \in {x \in OneAt(gs, ij[2]) : x.sp = "plain"}} :
                         ij \in {p \in el \X el : p[1] <= p[2] /\ p[2] <= p[1] + 3}}     \* the same or a neighbouring gap
           ELSE {})

\* The syntax of the decorated document: declaration i carries p_lead iff a comment sits in its first gap
\* (every declaration template starts with its "lead" gap).
RECURSIVE GapsBefore(_, _)
GapsBefore(ds, i) == IF i = 1 THEN 0 ELSE GapsBefore(ds, i - 1) + Cardinality(GapIdx(ds[i - 1].t))
Decorated(d, pl) ==
  [i \in DOMAIN d.ds |-> d.ds[i].a @@ [p_lead |-> \E j \in DOMAIN pl : pl[j].at = GapsBefore(d.ds, i) + 1]]

(***************************************************************************)
(* Behaviour                                                               *)
(***************************************************************************)
\* a document is picked first, then (in parallel over the documents) a configuration and a comment placement
Init == /\ plan \in Plans /\ doc \in Docs /\ cfg = Default /\ cm = <<>>
        /\ phase = "doc" /\ ast = Decorated(doc, <<>>) /\ cms = <<>>
\* simulation mode (CfgSet = "any"): every option drawn independently, a random placement
RandomCfg ==
  [indent_width |-> RandomElement({1, 2, 4, 8}), trailing_comment_width |-> RandomElement({1, 3}),
   indent_style |-> RandomElement({"space", "tab"}), line_width |-> RandomElement({-1, 20, 40, 80, 120}),
   explicit_string_concat |-> RandomElement(BOOLEAN), sort_declaration_property |-> RandomElement(BOOLEAN),
   align_declaration_property |-> RandomElement(BOOLEAN), else_if |-> RandomElement(BOOLEAN),
   always_next_line_else_if |-> RandomElement(BOOLEAN), return_statement_parenthesis |-> RandomElement(BOOLEAN),
   sort_declaration |-> RandomElement(BOOLEAN), align_trailing_comment |-> RandomElement(BOOLEAN),
   comment_style |-> RandomElement({"none", "sharp", "slash"}), should_use_unset |-> RandomElement(BOOLEAN),
   indent_case_labels |-> RandomElement(BOOLEAN), break_compound_conditions |-> RandomElement(BOOLEAN)]
Choose == /\ phase = "doc" /\ phase' = "src"
          /\ IF CfgSet = "any" THEN cfg' = RandomCfg /\ cm' = RandomElement(Placements(doc))
                                ELSE cfg' \in Cfgs /\ cm' \in Placements(doc)
          /\ cms' = cm' /\ ast' = Decorated(doc, cm')
          /\ UNCHANGED <<plan, doc>>

Format == /\ phase \in {"src", "fmt1"}
          /\ ast' = Normalize(ast, cfg)
          /\ cms' = Restyle(cms, cfg)
          /\ phase' = IF phase = "src" THEN "fmt1" ELSE "fmt2"
          /\ UNCHANGED <<plan, doc, cfg, cm>>
Next == Choose \/ Format
Spec == Init /\ [][Next]_vars

\* mechanism |= requirement
Preserved    == phase \in {"fmt1", "fmt2"} => ReqEquiv(Decorated(doc, cm), ast, cfg)                 \* C03
CommentsKept == phase \in {"fmt1", "fmt2"} => ReqComments(cm, cms, cfg)                     \* C15
Idempotent   == [][phase = "fmt1" => (ast' = ast /\ cms' = cms)]_vars          \* C14: the second pass stutters
\* design sanity: the semantic rewrites commute (up to presentation: which declaration loses the empty line at
\* the top of the file depends on the order of sorting and printing)
SemDevs == {<<"should_use_unset", TRUE>>, <<"sort_declaration_property", TRUE>>, <<"sort_declaration", TRUE>>, <<"else_if", TRUE>>}
Commute == (phase = "src" /\ cfg = Default /\ cm = <<>>) =>
             \A d1 \in SemDevs, d2 \in SemDevs :
               LET both == With(With(Default, d1), d2)
               IN CanonDoc(Normalize(Normalize(ast, With(Default, d1)), both), Default)
                    = CanonDoc(Normalize(ast, both), Default)

Enc(p) == CASE p.t = "w" -> p.s
            [] p.t = "g" -> "@" \o p.n \o ":" \o p.l \o ":" \o p.c \o ":" \o (IF p.d THEN "1" ELSE "0")
            [] p.t = "nl" -> "\n"
            [] OTHER -> "\n\n"
EncT(t) == [i \in DOMAIN t |-> Enc(t[i])]
Order == IF cfg.sort_declaration \/ cfg.sort_declaration_property THEN "bag" ELSE "seq"
Emit == phase = "fmt1" =>
          PrintT(<<"BEHAVIOUR", ToJson([fam |-> doc.fam, focus |-> doc.focus, toks |-> EncT(DocT(doc)), cm |-> cm, cfg |-> cfg,
                                         ast |-> Decorated(doc, cm), expAst |-> ast, expCm |-> cms, order |-> Order])>>)
=============================================================================
