SPECIFICATION Spec
CONSTANTS
  Plans <- DefaultPlans
INVARIANTS
  Preserved
  CommentsKept
  Emit
CHECK_DEADLOCK FALSE
