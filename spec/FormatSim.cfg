SPECIFICATION Spec
CONSTANTS
  DocSet = "unit"
  CfgSet = "any"
  MaxComments = 2
  OnlyDocumented = FALSE
  Specials = TRUE
INVARIANTS
  Preserved
  CommentsKept
  Emit
CHECK_DEADLOCK FALSE
