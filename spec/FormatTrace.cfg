SPECIFICATION TraceSpec
CONSTANTS
  Plans <- DefaultPlans
  TraceFile = "events.ndjson"
INVARIANTS
  VerdictInv
CHECK_DEADLOCK FALSE
