SPECIFICATION TraceSpec
CONSTANTS
  DocSet = "unit"
  CfgSet = "default"
  MaxComments = 0
  OnlyDocumented = TRUE
  Specials = FALSE
  TraceFile = "events.ndjson"
INVARIANTS
  VerdictInv
CHECK_DEADLOCK FALSE
