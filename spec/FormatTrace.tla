----------------------------- MODULE FormatTrace -----------------------------
(***************************************************************************)
(* Trace validation for Format: executions of the real formatter, recorded *)
(* as one event per (document, configuration)                              *)
(*   [id, cfg, in, parsed, out, cin, cout, idem]                           *)
(* (in/out: projections of the parsed input and of the re-parsed output;   *)
(* cin/cout: COMMENT tokens of input and output as [m, body]; idem: was    *)
(* the second pass byte-identical), are replayed as one Format step each.  *)
(* Monitor form: the implementation's step is taken as observed and the    *)
(* requirement (ReqEquiv, ReqComments, stuttering second pass of           *)
(* Format.tla) is evaluated on it; the verdict of every event is printed.  *)
(* Sources of events: every .vcl under examples/ x the configuration set   *)
(* (vhfmt corpus), and the replayed model behaviours whose observation     *)
(* differed from the mechanism's prediction (vhfmt fmtreplay -events).     *)
(***************************************************************************)
EXTENDS Format, TLCExt

CONSTANT TraceFile
Events == ndJsonDeserialize(TraceFile)

VARIABLES n
tvars == <<n, phase, ast, cms>>

Ev == Events[n]

TraceInit == /\ n \in 1..Len(Events)
             /\ phase = "src" /\ ast = Events[n].in /\ cms = Events[n].cin
             /\ doc = <<>> /\ cfg = Events[n].cfg /\ cm = <<>>
             /\ plan = [doc |-> "trace", cfg |-> "trace", mc |-> 0, od |-> TRUE, sp |-> FALSE]

\* the step the implementation took
TraceFormat == /\ phase = "src" /\ phase' = "fmt1"
               /\ ast' = Ev.out /\ cms' = Ev.cout
               /\ UNCHANGED <<n, plan, doc, cfg, cm>>
TraceSpec == TraceInit /\ [][TraceFormat]_<<n, plan, phase, ast, cms, doc, cfg, cm>>

\* the mechanism's prediction is computable only where no order table over arbitrary names is needed
MechComparable == ~cfg.sort_declaration /\ ~cfg.sort_declaration_property
Verdict ==
  [id   |-> Ev.id,
   c03  |-> Ev.parsed /\ ReqEquiv(Ev.in, ast, cfg),
   c15  |-> ReqComments(Ev.cin, cms, cfg),
   c14  |-> Ev.idem # "differs",
   mech |-> IF Ev.parsed /\ MechComparable THEN (IF ast = Normalize(Ev.in, cfg) THEN "same" ELSE "differs") ELSE "na"]
VerdictInv == phase = "fmt1" => PrintT(<<"BEHAVIOUR", ToJson(Verdict)>>)
=============================================================================
