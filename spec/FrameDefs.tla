------------------------------ MODULE FrameDefs ------------------------------
(***************************************************************************)
(* C13 - vocabulary shared by the program generator (FrameGen.tla) and the *)
(* trace specification (FrameTrace.tla), and the REQUIREMENT layer of      *)
(* "evaluation changes only what it names":                                *)
(*   Derived(T)     the pooled names whose value is derived from T         *)
(*   Allowed(P, s)  the pooled names the execution of statement s of       *)
(*                  program P may change, seen from the frame s runs in    *)
(* The pool: every local of main and of the callees, re.group.0-2, six     *)
(* names per HTTP object (a header, another spelling of it, a sub-field of *)
(* it, a second header, a header that starts not set, one that starts set  *)
(* and empty) on req, bereq, beresp, obj, resp - the not-set / empty       *)
(* distinction is part of the value - and one non-header variable each.    *)
(***************************************************************************)
EXTENDS Integers, Sequences, FiniteSets, TLC

Writable(scope) == CASE scope \in {"recv", "hash"} -> {"req"}
                     [] scope \in {"miss", "pass"} -> {"req", "bereq"}
                     [] scope = "fetch" -> {"req", "bereq", "beresp"}
                     [] scope \in {"hit", "error"} -> {"req", "obj"}
                     [] scope \in {"deliver", "log"} -> {"req", "resp"}

\* var.n is declared and never assigned by the fixed part of the program (a not-set STRING operand);
\* g0 / g1 take no parameter and declare their locals - the same names, var.f with another type - inside a block
\* p1 / p2 take one parameter of every VCL parameter type; main calls p1 and p2, p1 calls p2 (nesting depth 2)
PParams == {"var.p", "var.x", "var.k", "var.o", "var.g", "var.h", "var.d", "var.q", "var.a", "var.l"}
Visible(sub) == CASE sub = "main" -> {"var.i", "var.j", "var.f", "var.r", "var.s", "var.t", "var.b", "var.tm", "var.n",
                                     "var.be", "var.re", "var.ip"}
                  [] sub \in {"p1", "p2"} -> PParams
                  [] sub = "g0" -> {"var.i", "var.s", "var.f", "var.n"}
                  [] sub = "g1" -> {"var.i", "var.s"}
                  [] sub = "f1" -> {"var.p", "var.q", "var.i", "var.s"}
                  [] sub = "f2" -> {"var.p", "var.i", "var.s"}
IsLocal(n) == n \in {"var.i", "var.j", "var.f", "var.r", "var.s", "var.t", "var.b", "var.tm", "var.n", "var.be", "var.re", "var.ip", "var.x", "var.k", "var.o", "var.g", "var.h", "var.d", "var.a", "var.l", "var.p", "var.q"}
Ty(n) == CASE n \in {"var.i", "var.j", "var.q"} -> "INTEGER"
           [] n \in {"var.f", "var.g"} -> "FLOAT"
           [] n \in {"var.r", "var.d"} -> "RTIME"
           [] n \in {"var.b", "var.o"} -> "BOOL"
           [] n \in {"var.tm", "var.h"} -> "TIME"
           [] n \in {"var.be", "var.k", "req.backend"} -> "BACKEND"
           [] n \in {"var.re", "var.x"} -> "REGEX"
           [] n \in {"var.ip", "var.a"} -> "IP"
           [] n = "var.l" -> "ACL"
           [] OTHER -> "STRING"      \* STRING locals and every header


Objs == {"req", "bereq", "beresp", "obj", "resp"}
LocalNames == {"var.i", "var.j", "var.f", "var.r", "var.s", "var.t", "var.b", "var.tm", "var.n", "var.be", "var.re", "var.ip", "var.x", "var.k", "var.o", "var.g", "var.h", "var.d", "var.a", "var.l", "var.p", "var.q"}
ReGroups == {"re.group.0", "re.group.1", "re.group.2"}
\* H1 (with another spelling and a sub-field) and H2 start with a value, H3 starts not set, H4 set and empty
HdrRecs == {[n |-> o \o ".http." \o h, o |-> o, g |-> IF h \in {"H2", "H3", "H4"} THEN h ELSE "H1"] :
              o \in Objs, h \in {"H1", "h1", "H1:a", "H2", "H3", "H4"}}
HdrNames == {r.n : r \in HdrRecs}
Observers == {"req.url", "bereq.url", "beresp.status", "obj.status", "resp.status"}
\* req.backend and what the declared backend / director identifiers b1, b2, d1 evaluate to
Backends == {"req.backend", "b1", "b2", "d1"}
PoolNames == LocalNames \cup ReGroups \cup HdrNames \cup Observers \cup Backends
Range(f) == {f[x] : x \in DOMAIN f}

\* T and the values derived from T: a header, its other spellings and its sub-fields are one value
Derived(t) == IF IsLocal(t) \/ t = "req.backend" THEN {t}      \* assigning req.backend changes nothing but req.backend
              ELSE {r.n : r \in {x \in HdrRecs : \E q \in HdrRecs : q.n = t /\ q.o = x.o /\ q.g = x.g}}

\* expression forms that legitimately write re.group.* (a match, a regsub)
ReForms == {"bmatch", "sregsub"}
ExprsOf1(s) == {s.e} \cup Range(s.args)
WritesRe(s) == \E e \in ExprsOf1(s) : e.f \in ReForms
\* subroutines a statement calls: by a call statement, or by f2(...) inside its expression
CallsIn(s) == (IF s.k = "call" THEN {s.fn} ELSE {}) \cup (IF \E e \in ExprsOf1(s) : e.f = "sfcall" THEN {"f2"} ELSE {})

StmtsOfSub(P, f) == {s \in Range(P) : s.sub = f}
Children(P, s) == {c \in Range(P) : c.parent = s.id}
\* statements whose effect the property statement does not describe (it speaks of set, of expression
\* evaluation and of calls): their own effect is never judged, nor made part of an enclosing verdict
Unjudged(s) == s.k \in {"unset", "add"}

\* the non-local names a statement itself names as target
OwnGlobals(s) == IF s.k \in {"set", "unset", "add"} /\ ~IsLocal(s.t) THEN Derived(s.t) ELSE {}
\* the subroutines reachable from a call of f (main -> f1 -> f2, main -> g0 -> {g1, f2}; f2 and g1 call nothing)
Reach(P, f) == {f} \cup UNION {CallsIn(s) : s \in StmtsOfSub(P, f)}
\* what a call of f may change in the caller's view: never a local of the caller, never re.group.*
SubGlobals(P, f) ==
  IF \E g \in Reach(P, f) : \E s \in StmtsOfSub(P, g) : Unjudged(s)
  THEN PoolNames \ (LocalNames \cup ReGroups)
  ELSE UNION {UNION {OwnGlobals(s) : s \in StmtsOfSub(P, g)} : g \in Reach(P, f)}

RECURSIVE Allowed(_, _)
Allowed(P, s) ==
  LET viaCalls == UNION {SubGlobals(P, g) : g \in CallsIn(s)}
      re == IF WritesRe(s) THEN ReGroups ELSE {}
  IN CASE s.k = "set"   -> Derived(s.t) \cup re \cup viaCalls
       [] s.k = "unset" -> Derived(s.t)
       [] s.k = "add"   -> Derived(s.t) \cup re \cup viaCalls
       [] s.k = "log"   -> re \cup viaCalls
       [] s.k = "call"  -> re \cup viaCalls
       [] s.k = "if"    -> re \cup viaCalls \cup
                           UNION {IF Unjudged(c) THEN PoolNames ELSE Allowed(P, c) : c \in Children(P, s)}
=============================================================================
