SPECIFICATION Spec
CONSTANTS
  Scopes = {"recv"}
  Shape = "one"
  MaxStmts = 1
INVARIANTS
  Emit
CHECK_DEADLOCK FALSE
