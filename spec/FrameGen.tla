------------------------------ MODULE FrameGen ------------------------------
(***************************************************************************)
(* C13 - generator of the programs whose executions FrameTrace.tla judges. *)
(*                                                                         *)
(* A program is a flat list of statements                                  *)
(*   [id, sub, parent, br, k, t, op, e, fn, args]                          *)
(* sub   "main" | "f1" | "f2" | "g0" | "g1" - main calls f1(STRING var.p,   *)
(*       INTEGER var.q), the functional f2(STRING var.p) STRING and the    *)
(*       parameterless g0; f1 calls f2; g0 calls g1 and f2; g0 and g1      *)
(*       declare the same local names inside a block                       *)
(* parent/br  0 / "" = directly in the subroutine body, otherwise the id   *)
(*       of the enclosing if statement and the branch "a" (then) / "b"     *)
(* k     set | unset | add | log | call | if ;  t target, op operator      *)
(* e     expression [f form, x, y operands] - every prefix / infix form    *)
(*       over variable operands: -x on INTEGER FLOAT RTIME, !x, x y, x < y,*)
(*       x ~ re, if(), built-ins, a call of f2 ...; the VCL text of a form *)
(*       is a look-up table in the harness.                                *)
(* Order inside a block is id order.  Types are respected so that programs *)
(* run without error.  Shape = "one": every one-statement main program;    *)
(* "call": every (call carrier in main, one statement in the callee) pair; *)
(* "free": statements anywhere (used with -simulate: a category - where    *)
(* and what kind - is drawn first, then a statement of that category, so   *)
(* that rare kinds such as calls are not drowned by assignments).          *)
(***************************************************************************)
EXTENDS FrameDefs, Json

CONSTANTS Scopes,     \* scopes programs are generated for
          Shape,      \* "one" | "call" | "free"
          MaxStmts    \* statements per program ("free")

HdrTargets(scope) == {o \o ".http." \o h : o \in Writable(scope), h \in {"H1", "h1", "H1:a", "H2"}}
\* the headers that start not set / set and empty: written with the empty string, a literal, a local
HdrEdge(scope) == {o \o ".http." \o h : o \in Writable(scope), h \in {"H3", "H4"}}
HdrWhole(scope)   == {o \o ".http." \o h : o \in Writable(scope), h \in {"H1", "h1", "H2"}}
HdrOperands(scope) == {o \o ".http." \o h : o \in Writable(scope), h \in {"H1", "H2"}}

\* operand classes
Opd(scope, sub, c) ==
  CASE c = "" -> {""}
    [] c = "TIME" -> {n \in Visible(sub) : Ty(n) = "TIME"}
    [] c = "LSTR" -> {n \in Visible(sub) : Ty(n) = "STRING"}
    [] c = "STRING" -> {n \in Visible(sub) : Ty(n) = "STRING"} \cup HdrOperands(scope)
    [] OTHER -> {n \in Visible(sub) : Ty(n) = c}

F(f, ty, xs, ys) == [f |-> f, ty |-> ty, xs |-> xs, ys |-> ys]
Forms == {
  F("ilit", "INTEGER", "", ""), F("ivar", "INTEGER", "INTEGER", ""), F("ineg", "INTEGER", "INTEGER", ""),
  F("istrlen", "INTEGER", "STRING", ""),
  F("flit", "FLOAT", "", ""), F("fvar", "FLOAT", "FLOAT", ""), F("fneg", "FLOAT", "FLOAT", ""),
  F("fint", "FLOAT", "INTEGER", ""), F("fnegint", "FLOAT", "INTEGER", ""),
  F("rlit", "RTIME", "", ""), F("rvar", "RTIME", "RTIME", ""), F("rneg", "RTIME", "RTIME", ""),
  F("slit", "STRING", "", ""), F("svar", "STRING", "STRING", ""), F("scat", "STRING", "LSTR", "STRING"),
  F("scatlit", "STRING", "STRING", ""), F("sif", "STRING", "BOOL", "LSTR"), F("supper", "STRING", "STRING", ""),
  F("sregsub", "STRING", "STRING", ""), F("sgroup", "STRING", "", ""), F("scatint", "STRING", "INTEGER", ""),
  F("sfcall", "STRING", "STRING", ""),
  F("sempty", "STRING", "", ""), F("scatplus", "STRING", "STRING", ""), F("stplus", "STRING", "TIME", ""),
  F("stmid", "STRING", "TIME", ""), F("stvar", "STRING", "TIME", ""),
  F("tlit", "TIME", "", ""), F("tvar", "TIME", "TIME", ""),
  F("band", "BOOL", "BOOL", "BOOL"), F("bor", "BOOL", "BOOL", "BOOL"), F("bne", "BOOL", "LSTR", "STRING"),
  F("bnmatch", "BOOL", "STRING", ""), F("brge", "BOOL", "RTIME", "RTIME"), F("bfle", "BOOL", "FLOAT", "FLOAT"),
  F("btgt", "BOOL", "TIME", "TIME"), F("bteq", "BOOL", "TIME", ""),
  F("klit1", "BACKEND", "", ""), F("klit2", "BACKEND", "", ""), F("kdir", "BACKEND", "", ""), F("kvar", "BACKEND", "BACKEND", ""),
  F("kreq", "BACKEND", "", ""), F("bkeq", "BOOL", "BACKEND", ""), F("bmatchx", "BOOL", "STRING", "REGEX"),
  F("blit", "BOOL", "", ""), F("bvar", "BOOL", "BOOL", ""), F("bnot", "BOOL", "BOOL", ""), F("blt", "BOOL", "INTEGER", "INTEGER"),
  F("bneglt", "BOOL", "INTEGER", ""), F("bmatch", "BOOL", "STRING", ""), F("beq", "BOOL", "LSTR", "STRING"),
  F("bfgt", "BOOL", "FLOAT", ""), F("bfneg", "BOOL", "FLOAT", ""), F("brneg", "BOOL", "RTIME", "") }

E(f, x, y) == [f |-> f, x |-> x, y |-> y]
NoE == E("", "", "")
\* f2 does not call itself
FormsIn(sub) == IF sub \in {"f2", "g1", "p2"} THEN {g \in Forms : g.f # "sfcall"} ELSE Forms
ExprsOf(scope, sub, ty) ==
  UNION {{E(g.f, x, y) : x \in Opd(scope, sub, g.xs), y \in Opd(scope, sub, g.ys)} : g \in {h \in FormsIn(sub) : h.ty = ty}}

AssignOps(ty) == CASE ty \in {"INTEGER", "FLOAT"} -> {"=", "+=", "-=", "*="}
                   [] ty = "RTIME" -> {"=", "+=", "-="}
                   [] ty = "STRING" -> {"=", "+="}
                   [] ty = "BOOL" -> {"=", "&&=", "||="}
                   [] ty = "TIME" -> {"=", "+=", "-="}
                   [] ty = "BACKEND" -> {"="}
                   [] OTHER -> {}       \* REGEX, IP, ACL parameters are read, never assigned
BitOps == {"|=", "&=", "^=", "<<=", ">>=", "rol=", "ror="}

Mk(k, t, op, e, fn, args) == [k |-> k, t |-> t, op |-> op, e |-> e, fn |-> fn, args |-> args]

\* A statement is a head (kind, target, operator, callee) completed by a body (expression / arguments).
\* Simulation draws the kind and the place first, then a head, then a body, so that no draw is over
\* more than a few hundred candidates.
H(k, t, op, fn) == [k |-> k, t |-> t, op |-> op, fn |-> fn]
Kinds == {"set", "other", "call", "if"}
Targets(scope, sub) == Visible(sub) \cup HdrTargets(scope) \cup {"req.backend"}
Heads(scope, sub, kind) ==
  CASE kind = "set" ->
         UNION {{H("set", t, op, "") : op \in AssignOps(Ty(t)) \cup (IF Ty(t) = "INTEGER" THEN BitOps ELSE {})} : t \in Targets(scope, sub)}
         \cup {H("set", t, "=", "") : t \in HdrEdge(scope)}
    [] kind = "other" ->
         {H("unset", t, "", "") : t \in HdrTargets(scope) \cup HdrEdge(scope)} \cup {H("add", t, "=", "") : t \in HdrWhole(scope)} \cup {H("log", "", "", "")}
    [] kind = "call" ->
         (IF sub = "main" THEN {H("call", "", "", "f1"), H("call", "", "", "g0")} ELSE {})
         \cup (IF sub \in {"main", "f1", "g0"} THEN {H("call", "", "", "f2")} ELSE {})
         \cup (IF sub = "g0" THEN {H("call", "", "", "g1")} ELSE {})
         \cup (IF sub = "main" THEN {H("call", "", "", "p1")} ELSE {})
         \cup (IF sub \in {"main", "p1"} THEN {H("call", "", "", "p2")} ELSE {})
    [] kind = "if" -> {H("if", "", "", "")}
ArgS(scope, sub) == {x \in ExprsOf(scope, sub, "STRING") : x.f \in {"slit", "svar", "scatlit", "stplus"}}
ArgI(scope, sub) == {x \in ExprsOf(scope, sub, "INTEGER") : x.f \in {"ilit", "ivar", "ineg"}}
\* arguments of p1 / p2: per parameter a literal (two different ones per type) or a variable of the caller
ParamTypes == <<"STRING", "REGEX", "BACKEND", "BOOL", "FLOAT", "TIME", "RTIME", "INTEGER", "IP", "ACL">>
LitA == <<"slit", "xlitA", "klit1", "blit", "flit", "tlit", "rlit", "ilit", "alitA", "llit1">>
LitB == <<"slitB", "xlitB", "klit2", "blitB", "flitB", "tlitB", "rlitB", "ilitB", "alitB", "llit2">>
VarF == <<"svar", "xvar", "kvar", "bvar", "fvar", "tvar", "rvar", "ivar", "avar", "lvar">>
MainVar == <<"var.s", "var.re", "var.be", "var.b", "var.f", "var.tm", "var.r", "var.i", "var.ip", "">>
PVar == <<"var.p", "var.x", "var.k", "var.o", "var.g", "var.h", "var.d", "var.q", "var.a", "var.l">>
ArgAt(sub, i, mode) == LET v == IF sub = "main" THEN MainVar[i] ELSE PVar[i] IN
                       CASE mode = "V" /\ v # "" -> E(VarF[i], v, "")
                         [] mode = "B" -> E(LitB[i], "", "")
                         [] OTHER -> E(LitA[i], "", "")
ArgPatterns == {[i \in 1..10 |-> "A"], [i \in 1..10 |-> "B"], [i \in 1..10 |-> "V"],
                [i \in 1..10 |-> IF i % 2 = 1 THEN "A" ELSE "V"], [i \in 1..10 |-> IF i % 2 = 1 THEN "V" ELSE "B"]}
PArgs(sub) == {[i \in 1..10 |-> ArgAt(sub, i, pat[i])] : pat \in ArgPatterns}
\* bodies: [e, args]
B(e, args) == [e |-> e, args |-> args]
Bodies(scope, sub, h) ==
  CASE h.k = "set" -> IF h.op \in BitOps THEN {B(E("ibits", "", ""), <<>>)}
                      ELSE IF h.t \in HdrEdge(scope) THEN {B(e, <<>>) : e \in {x \in ExprsOf(scope, sub, "STRING") : x.f \in {"sempty", "slit"} \/ (x.f = "svar" /\ IsLocal(x.x))}}
                      ELSE IF Ty(h.t) = "TIME" /\ h.op # "=" THEN {B(e, <<>>) : e \in ExprsOf(scope, sub, "RTIME")}
                      ELSE {B(e, <<>>) : e \in ExprsOf(scope, sub, Ty(h.t))}
    [] h.k = "unset" -> {B(NoE, <<>>)}
    [] h.k = "add" -> {B(e, <<>>) : e \in {x \in ExprsOf(scope, sub, "STRING") : x.f \in {"slit", "svar"}}}
    [] h.k = "log" -> {B(e, <<>>) : e \in ExprsOf(scope, sub, "STRING")}
    [] h.k = "call" -> IF h.fn = "f1" THEN {B(NoE, <<a, b>>) : a \in ArgS(scope, sub), b \in ArgI(scope, sub)}
                       ELSE IF h.fn = "f2" THEN {B(NoE, <<a>>) : a \in ArgS(scope, sub)}
                       ELSE IF h.fn \in {"p1", "p2"} THEN {B(NoE, a) : a \in PArgs(sub)}
                       ELSE {B(NoE, <<>>)}
    [] h.k = "if" -> {B(e, <<>>) : e \in ExprsOf(scope, sub, "BOOL")}
Stmt(h, b) == Mk(h.k, h.t, h.op, b.e, h.fn, b.args)
StmtsOf(scope, sub, kind) == UNION {{Stmt(h, b) : b \in Bodies(scope, sub, h)} : h \in Heads(scope, sub, kind)}

\* "call" shape: the statements of main that carry a call
Carriers(scope) ==
  {Mk("call", "", "", NoE, "f1", <<a, b>>) : a \in {E("svar", "var.s", ""), E("svar", "req.http.H1", ""), E("slit", "", "")},
                                            b \in {E("ivar", "var.i", ""), E("ineg", "var.i", "")}}
  \cup {Mk("call", "", "", NoE, "p1", a) : a \in {[i \in 1..10 |-> ArgAt("main", i, "A")], [i \in 1..10 |-> ArgAt("main", i, "V")]}}
  \cup {Mk("call", "", "", NoE, "g0", <<>>),
        Mk("call", "", "", NoE, "f2", <<E("svar", "var.s", "")>>),
        Mk("set", "var.t", "=", E("sfcall", "var.s", ""), "", <<>>),
        Mk("set", "req.http.H2", "=", E("sfcall", "req.http.H1", ""), "", <<>>),
        Mk("log", "", "", E("sfcall", "var.s", ""), "", <<>>)}
Callee(c) == IF c.k = "call" THEN c.fn ELSE "f2"

----------------------------------------------------------------------------
VARIABLES scope, stmts, cat, done
vars == <<scope, stmts, cat, done>>

NoHead == H("", "", "", "")
NoCat == [sub |-> "", parent |-> 0, br |-> "", kind |-> "", h |-> NoHead]
Place(s, sub, parent, br) ==
  [id |-> Len(stmts) + 1, sub |-> sub, parent |-> parent, br |-> br,
   k |-> s.k, t |-> s.t, op |-> s.op, e |-> s.e, fn |-> s.fn, args |-> s.args]

Init == scope \in Scopes /\ stmts = <<>> /\ cat = NoCat /\ done = FALSE

\* where a statement may go: a subroutine body or a branch of an if statement already there
\* (a callee body only once something that runs calls it)
CalledBy(f) == UNION {CallsIn(stmts[i]) : i \in {j \in 1..Len(stmts) : stmts[j].sub = f}}
Live == {"main"} \cup CalledBy("main") \cup UNION {CalledBy(f) : f \in CalledBy("main")}
Places == {[sub |-> sb, parent |-> 0, br |-> ""] : sb \in Live}
          \cup {[sub |-> stmts[i].sub, parent |-> stmts[i].id, br |-> b] :
                  i \in {j \in 1..Len(stmts) : stmts[j].k = "if" /\ stmts[j].sub \in Live}, b \in {"a", "b"}}

PickCat == /\ Shape = "free" /\ cat = NoCat /\ Len(stmts) < MaxStmts
           /\ \E p \in Places, kd \in Kinds :
                /\ Heads(scope, p.sub, kd) # {}
                /\ cat' = [sub |-> p.sub, parent |-> p.parent, br |-> p.br, kind |-> kd, h |-> NoHead]
           /\ UNCHANGED <<scope, stmts, done>>
PickHead == /\ Shape = "free" /\ cat # NoCat /\ cat.h = NoHead
            /\ \E h \in Heads(scope, cat.sub, cat.kind) : cat' = [cat EXCEPT !.h = h]
            /\ UNCHANGED <<scope, stmts, done>>
PickStmt == /\ Shape = "free" /\ cat # NoCat /\ cat.h # NoHead
            /\ \E b \in Bodies(scope, cat.sub, cat.h) : stmts' = Append(stmts, Place(Stmt(cat.h, b), cat.sub, cat.parent, cat.br))
            /\ cat' = NoCat /\ UNCHANGED <<scope, done>>

One == /\ Shape = "one" /\ stmts = <<>>
       /\ \E kd \in Kinds : \E s \in StmtsOf(scope, "main", kd) : stmts' = <<Place(s, "main", 0, "")>>
       /\ UNCHANGED <<scope, cat, done>>

CallFirst == /\ Shape = "call" /\ stmts = <<>>
             /\ \E c \in Carriers(scope) : stmts' = <<Place(c, "main", 0, "")>>
             /\ UNCHANGED <<scope, cat, done>>
CallSecond == /\ Shape = "call" /\ Len(stmts) = 1
              /\ LET f == Callee(stmts[1]) IN
                 \E kd \in {"set", "other", "call"} : \E s \in StmtsOf(scope, f, kd) : stmts' = Append(stmts, Place(s, f, 0, ""))
              /\ UNCHANGED <<scope, cat, done>>

Complete == CASE Shape = "one" -> Len(stmts) = 1
              [] Shape = "call" -> Len(stmts) = 2
              [] OTHER -> Len(stmts) = MaxStmts /\ cat = NoCat
\* the one successor of a complete program: TLC (also in simulation mode, where the invariant is
\* evaluated on every candidate successor) emits a program only from here
Finish == /\ ~done /\ Complete /\ done' = TRUE /\ UNCHANGED <<scope, stmts, cat>>

Next == PickCat \/ PickHead \/ PickStmt \/ One \/ CallFirst \/ CallSecond \/ Finish
Spec == Init /\ [][Next]_vars

Emit == done => PrintT(<<"BEHAVIOUR", ToJson([scope |-> scope, stmts |-> stmts])>>)
=============================================================================
