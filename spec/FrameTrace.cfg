SPECIFICATION TraceSpec
CONSTANTS
  TraceFile = "traces.ndjson"
INVARIANTS
  AcceptInv
CHECK_DEADLOCK FALSE
