----------------------------- MODULE FrameTrace -----------------------------
(***************************************************************************)
(* C13 - trace validation (code -> spec), monitor form.                    *)
(*                                                                         *)
(* A trace is the recorded execution of one program by the real            *)
(* interpreter: the program (flat statement list, FrameGen.tla), the pool  *)
(* names in snapshot order, and one event per executed statement           *)
(*     [sid, b, a]   b / a = the value (with flags) of every pooled name   *)
(*                   before / after the statement, read in the frame the   *)
(*                   statement runs in (caller or callee)                  *)
(* One TLC step consumes one event.                                        *)
(*                                                                         *)
(* Requirement part (monitored - never blocks, every breaking event is     *)
(* listed): the set of names whose value changed must be within            *)
(* Allowed(program, statement) of FrameDefs.tla:                           *)
(*   - evaluating an expression (log E, the condition of an if, the right  *)
(*     side of a set) changes nothing but re.group.*, and those only when  *)
(*     the expression matches a regular expression;                        *)
(*   - set T op= E changes only T and the values derived from T;           *)
(*   - a call (statement, or f2(..) inside an expression) changes no local *)
(*     of the caller and no re.group.* of the caller, whatever the callee  *)
(*     does to its parameters and locals, and only the non-local names the *)
(*     callee's own statements name.                                       *)
(* Law of a breaking event: "call" when the statement calls a subroutine   *)
(* and a caller local / re.group.* changed; "frame" otherwise.  Breaks the *)
(* property statement does not speak about go to the drift list: the own   *)
(* effect of unset / add, re.group.* written by an expression without a    *)
(* match.                                                                  *)
(*                                                                         *)
(* Mechanism part (blocks - a trace that fails it is not accepted and is   *)
(* reported as a recorder / control-flow fault, not as a violation):       *)
(* the pool is the pool of FrameDefs, snapshots have its length, every     *)
(* event belongs to a statement of the program, and unless the run ended   *)
(* in an error the top-level statements of main appear once each, in       *)
(* order.                                                                  *)
(***************************************************************************)
EXTENDS FrameDefs, TLCExt, Json

CONSTANT TraceFile
Traces == ndJsonDeserialize(TraceFile)

VARIABLES t,      \* trace index
          k,      \* next event
          viol,   \* requirement breaks  <<[ev, sid, law, names, k, op, f, fn]>>
          drift   \* breaks outside the property statement
tvars == <<t, k, viol, drift>>

Tr == Traces[t]
Ids(P) == {s.id : s \in Range(P)}
StmtOf(P, id) == CHOOSE s \in Range(P) : s.id = id
PoolOK(tr) == Len(tr.pool) = Cardinality(PoolNames) /\ Range(tr.pool) = PoolNames

TraceInit == \E tt \in 1..Len(Traces) : t = tt /\ k = 1 /\ viol = <<>> /\ drift = <<>> /\ PoolOK(Traces[tt])

Changed(tr, e) == {tr.pool[i] : i \in {j \in 1..Len(tr.pool) : e.b[j] # e.a[j]}}

Entry(i, s, law, names) == [ev |-> i, sid |-> s.id, law |-> law, names |-> names,
                            k |-> s.k, op |-> s.op, f |-> s.e.f, fn |-> s.fn, t |-> s.t, sub |-> s.sub]

Step ==
  /\ k <= Len(Tr.events)
  /\ LET e == Tr.events[k] IN
     /\ e.sid \in Ids(Tr.stmts) /\ Len(e.b) = Len(Tr.pool) /\ Len(e.a) = Len(Tr.pool)      \* mechanism: blocks
     /\ LET s    == StmtOf(Tr.stmts, e.sid)
            bad  == Changed(Tr, e) \ Allowed(Tr.stmts, s)
            \* outside the statement of the property
            soft == IF Unjudged(s) THEN bad
                    ELSE IF CallsIn(s) = {} THEN bad \cap ReGroups ELSE {}
            hard == bad \ soft
            callLaw == hard \cap (LocalNames \cup ReGroups)
        IN /\ viol' = (IF CallsIn(s) # {} /\ callLaw # {} THEN <<Entry(k, s, "call", callLaw)>> ELSE <<>>)
                      \o (IF hard \ (IF CallsIn(s) # {} THEN callLaw ELSE {}) # {}
                          THEN <<Entry(k, s, "frame", hard \ (IF CallsIn(s) # {} THEN callLaw ELSE {}))>> ELSE <<>>)
                      \o viol
           /\ drift' = IF soft # {} THEN <<Entry(k, s, "unjudged", soft)>> \o drift ELSE drift
  /\ k' = k + 1 /\ UNCHANGED t

TraceNext == Step
TraceSpec == TraceInit /\ [][TraceNext]_tvars

\* mechanism: the top-level statements of main, in order, once each (a run that ended in an error: a prefix)
MainIds(P) == {s.id : s \in {x \in Range(P) : x.sub = "main" /\ x.parent = 0}}
MainSeq(tr) == SelectSeq([i \in 1..Len(tr.events) |-> tr.events[i].sid], LAMBDA x : x \in MainIds(tr.stmts))
Sorted(q) == \A i \in 1..Len(q) - 1 : q[i] < q[i + 1]
OrderOK(tr) == /\ Sorted(MainSeq(tr))
               /\ tr.err = "" => Range(MainSeq(tr)) = MainIds(tr.stmts)

Done == k = Len(Tr.events) + 1
AcceptInv == (Done /\ OrderOK(Tr)) =>
               PrintT(<<"BEHAVIOUR", ToJson([accept |-> Tr.id, n |-> Len(Tr.events), viol |-> viol, drift |-> drift])>>)
=============================================================================
