------------------------------ MODULE Grammar ------------------------------
(***************************************************************************)
(* The Fastly VCL grammar of docs/parser.md as a generator of programs      *)
(* (property C02; reused by C03 C09 C14 C15 C19).                           *)
(*                                                                         *)
(* REQUIREMENT LAYER                                                        *)
(*  - abstract syntax: records with a kind field k (DESIGN appendix A, the  *)
(*    JSON shape of harness/internal/astproj);                              *)
(*  - DocPrec: the documented precedence order                              *)
(*       || < && < ~ !~ < == != < < > <= >= < concatenation < prefix;       *)
(*  - Paren(t, mode): where the documented table needs parentheses (a child *)
(*    that binds looser than its parent, or as loosely on the right: all    *)
(*    binary operators group left to right), a group node is written;       *)
(*    mode "redundant" also parenthesises every other binary child;         *)
(*  - Render: tree -> token sequence, one production per node kind;         *)
(*  - the requirement: parsing Render(s) gives back s, each declaration,    *)
(*    statement and expression once and in source order.                    *)
(* MECHANISM LAYER                                                          *)
(*  - Pratt: ParseExpression / ParseInfixExpression /                       *)
(*    ParseInfixStringConcatExpression / ParsePrefixExpression /            *)
(*    ParseGroupedExpression / ParseIfExpression /                          *)
(*    ParseFunctionCallExpression of parser/expression_parser.go with the   *)
(*    table `precedences` of parser/parser.go (CodePrec);                   *)
(*  - Dispatch: the statement kind ParseStatement / Parse choose from the   *)
(*    first token (and, for an identifier, the second).                     *)
(* TLC checks  Pratt(Render(s)) = s  and  Dispatch(Render(st)) = st.k  for  *)
(* everything generated (GrammarMC.tla) and prints the cases for replay.    *)
(*                                                                         *)
(* A token is [ty, s, v]: lexer token type, source text, literal value.     *)
(* A long string {"..."} is one token here (the lexer's OPEN_LONG_STRING /  *)
(* STRING / CLOSE_LONG_STRING triple is C01's business).                    *)
(***************************************************************************)
EXTENDS Naturals, Sequences, TLC

----------------------------------------------------------------------------
(* tokens *)
T(ty, s) == [ty |-> ty, s |-> s, v |-> s]
TV(ty, s, v) == [ty |-> ty, s |-> s, v |-> v]
Id(s)  == T("IDENT", s)
Str(v) == TV("STRING", "\"" \o v \o "\"", v)
LStr(v) == TV("OPEN_LONG_STRING", "{\"" \o v \o "\"}", v)
LStrD(v, d) == TV("OPEN_LONG_STRING", "{" \o d \o "\"" \o v \o "\"" \o d \o "}", v)     \* {DELIM"..."DELIM}
Semi == T("SEMICOLON", ";")   LP == T("LEFT_PAREN", "(")   RP == T("RIGHT_PAREN", ")")
LB == T("LEFT_BRACE", "{")    RB == T("RIGHT_BRACE", "}")  Comma == T("COMMA", ",")
Colon == T("COLON", ":")      Dot == T("DOT", ".")         Assign == T("ASSIGN", "=")
KwType == [acl |-> "ACL", backend |-> "BACKEND", director |-> "DIRECTOR", table |-> "TABLE", sub |-> "SUBROUTINE",
           add |-> "ADD", call |-> "CALL", declare |-> "DECLARE", error |-> "ERROR", esi |-> "ESI",
           include |-> "INCLUDE", import |-> "IMPORT", log |-> "LOG", restart |-> "RESTART", return |-> "RETURN",
           set |-> "SET", synthetic |-> "SYNTHETIC", unset |-> "UNSET", if |-> "IF", else |-> "ELSE",
           elseif |-> "ELSEIF", elsif |-> "ELSIF", true |-> "TRUE", false |-> "FALSE", remove |-> "REMOVE",
           penaltybox |-> "PENALTYBOX", ratecounter |-> "RATECOUNTER", goto |-> "GOTO", switch |-> "SWITCH",
           case |-> "CASE", default |-> "DEFAULT", break |-> "BREAK", fallthrough |-> "FALLTHROUGH"]
Kw(s) == IF s = "synthetic.base64" THEN T("SYNTHETIC_BASE64", s) ELSE T(KwType[s], s)
\* operator tokens
OpType == [x \in {"||"} |-> "OR"] @@ [x \in {"&&"} |-> "AND"] @@ [x \in {"~"} |-> "REGEX"] @@
          [x \in {"!~"} |-> "NOT_REGEX_MATCH"] @@ [x \in {"=="} |-> "EQUAL"] @@ [x \in {"!="} |-> "NOTEQUAL"] @@
          [x \in {"<"} |-> "LESS_THAN"] @@ [x \in {">"} |-> "GREATER_THAN"] @@ [x \in {"<="} |-> "LESS_THAN_EQUAL"] @@
          [x \in {">="} |-> "GREATER_THAN_EQUAL"] @@ [x \in {"+"} |-> "PLUS"] @@ [x \in {"-"} |-> "MINUS"] @@
          [x \in {"!"} |-> "NOT"] @@ [x \in {"%"} |-> "PERCENT"] @@ [x \in {"/"} |-> "SLASH"]
Op(s) == T(OpType[s], s)
AssignOps == [x \in {"="} |-> "ASSIGN"] @@ [x \in {"+="} |-> "ADDITION"] @@ [x \in {"-="} |-> "SUBTRACTION"] @@
             [x \in {"*="} |-> "MULTIPLICATION"] @@ [x \in {"/="} |-> "DIVISION"] @@ [x \in {"%="} |-> "REMAINDER"] @@
             [x \in {"|="} |-> "BITWISE_OR"] @@ [x \in {"&="} |-> "BITWISE_AND"] @@ [x \in {"^="} |-> "BITWISE_XOR"] @@
             [x \in {"<<="} |-> "LEFT_SHIFT"] @@ [x \in {">>="} |-> "RIGHT_SHIFT"] @@ [x \in {"rol="} |-> "LEFT_ROTATE"] @@
             [x \in {"ror="} |-> "RIGHT_ROTATE"] @@ [x \in {"&&="} |-> "LOGICAL_AND"] @@ [x \in {"||="} |-> "LOGICAL_OR"]
AOp(s) == T(AssignOps[s], s)

----------------------------------------------------------------------------
(* abstract syntax: expressions *)
Ident(v)  == [k |-> "ident", v |-> v]
String(v) == [k |-> "string", v |-> v]
LongString(v) == [k |-> "string", v |-> v, long |-> TRUE]   \* `long` (and a delimiter) is presentational: dropped by Strip
LongStringD(v, d) == [k |-> "string", v |-> v, long |-> TRUE, delim |-> d]
Int(v)    == [k |-> "int", v |-> v]          \* value as a decimal digit string
Float(v)  == [k |-> "float", v |-> v]        \* shortest decimal representation
RTime(v)  == [k |-> "rtime", v |-> v]
Bool(v)   == [k |-> "bool", b |-> v]         \* (field b, not v: TLC must never compare a boolean with a string value)
Prefix(o, r)   == [k |-> "prefix", op |-> o, right |-> r]
Infix(o, l, r) == [k |-> "infix", op |-> o, left |-> l, right |-> r]
Juxt(l, r)     == [k |-> "infix", op |-> "juxt", left |-> l, right |-> r]   \* concatenation written without +
Postfix(o, l)  == [k |-> "postfix", op |-> o, left |-> l]
Group(e)       == [k |-> "group", e |-> e]
IfX(c, a, b)   == [k |-> "ifx", c |-> c, a |-> a, b |-> b]
CallX(f, args) == [k |-> "fcallx", fn |-> f, args |-> args]

\* the documented order (property C02 / docs: || loosest ... prefix tightest); atoms bind tightest of all
DocPrec(o) == CASE o = "||" -> 1 [] o = "&&" -> 2 [] o \in {"~", "!~"} -> 3 [] o \in {"==", "!="} -> 4
                [] o \in {"<", ">", "<=", ">="} -> 5 [] o \in {"+", "juxt"} -> 6
DocPrefix == 7
PrecOf(t) == IF t.k = "infix" THEN DocPrec(t.op) ELSE IF t.k = "prefix" THEN DocPrefix ELSE 9

\* Paren: write the group nodes.  need = the documented table requires parentheses; mode "redundant"
\* also wraps every binary child that does not need them.
Wrap(need, mode, t) == IF need \/ (mode = "redundant" /\ t.k = "infix") THEN Group(t) ELSE t
RECURSIVE Paren(_, _)
ParenSeq(s, mode) == [i \in 1..Len(s) |-> Paren(s[i], mode)]
Paren(t, mode) ==
  CASE t.k = "infix"   -> Infix(t.op, Wrap(PrecOf(t.left) < DocPrec(t.op), mode, Paren(t.left, mode)),
                                      Wrap(PrecOf(t.right) <= DocPrec(t.op), mode, Paren(t.right, mode)))
    [] t.k = "prefix"  -> Prefix(t.op, Wrap(PrecOf(t.right) < DocPrefix, mode, Paren(t.right, mode)))
    [] t.k = "postfix" -> Postfix(t.op, Wrap(PrecOf(t.left) < 9, mode, Paren(t.left, mode)))
    [] t.k = "group"   -> Group(Paren(t.e, mode))
    [] t.k = "ifx"     -> IfX(Paren(t.c, mode), Paren(t.a, mode), Paren(t.b, mode))
    [] t.k = "fcallx"  -> CallX(t.fn, ParenSeq(t.args, mode))
    [] OTHER           -> t

\* Render: one production per node kind
RECURSIVE Render(_)
RECURSIVE RenderArgs(_)
RenderArgs(args) == IF args = <<>> THEN <<>>
                    ELSE IF Len(args) = 1 THEN Render(args[1])
                    ELSE Render(args[1]) \o <<Comma>> \o RenderArgs(Tail(args))
Render(t) ==
  CASE t.k = "ident"   -> <<Id(t.v)>>
    [] t.k = "string"  -> IF "delim" \in DOMAIN t THEN <<LStrD(t.v, t.delim)>>
                          ELSE IF "long" \in DOMAIN t THEN <<LStr(t.v)>> ELSE <<Str(t.v)>>
    [] t.k = "int"     -> <<TV("INT", t.v, t.v)>>
    [] t.k = "float"   -> <<TV("FLOAT", t.v, t.v)>>
    [] t.k = "rtime"   -> <<TV("RTIME", t.v, t.v)>>
    [] t.k = "bool"    -> <<Kw(IF t.b THEN "true" ELSE "false")>>
    [] t.k = "prefix"  -> <<Op(t.op)>> \o Render(t.right)
    [] t.k = "infix"   -> Render(t.left) \o (IF t.op = "juxt" THEN <<>> ELSE <<Op(t.op)>>) \o Render(t.right)
    [] t.k = "postfix" -> Render(t.left) \o <<Op(t.op)>>
    [] t.k = "group"   -> <<LP>> \o Render(t.e) \o <<RP>>
    [] t.k = "ifx"     -> <<Kw("if"), LP>> \o Render(t.c) \o <<Comma>> \o Render(t.a) \o <<Comma>> \o Render(t.b) \o <<RP>>
    [] t.k = "fcallx"  -> <<Id(t.fn), LP>> \o RenderArgs(t.args) \o <<RP>>

\* what the parser must give back for a written tree: juxtaposition is the operator +, the long-string
\* flag is presentation
RECURSIVE Strip(_)
StripSeq(s) == [i \in 1..Len(s) |-> Strip(s[i])]
Strip(t) ==
  CASE t.k = "infix"   -> Infix(IF t.op = "juxt" THEN "+" ELSE t.op, Strip(t.left), Strip(t.right))
    [] t.k = "prefix"  -> Prefix(t.op, Strip(t.right))
    [] t.k = "postfix" -> Postfix(t.op, Strip(t.left))
    [] t.k = "group"   -> Group(Strip(t.e))
    [] t.k = "ifx"     -> IfX(Strip(t.c), Strip(t.a), Strip(t.b))
    [] t.k = "fcallx"  -> CallX(t.fn, StripSeq(t.args))
    [] t.k = "string"  -> String(t.v)
    [] OTHER           -> t

\* The grammar has juxtaposition only before an operand that starts with an identifier, a string, a long string
\* or if( : an identifier or `)` followed by `(` is a call, `!` `-` and literals do not continue an expression.
JuxtStart == {"IDENT", "STRING", "OPEN_LONG_STRING", "IF"}
RECURSIVE Legal(_)
Legal(t) ==
  CASE t.k = "infix"   -> Legal(t.left) /\ Legal(t.right) /\ (t.op = "juxt" => Render(t.right)[1].ty \in JuxtStart)
    [] t.k = "prefix"  -> Legal(t.right)
    [] t.k = "postfix" -> Legal(t.left)
    [] t.k = "group"   -> Legal(t.e)
    [] t.k = "ifx"     -> Legal(t.c) /\ Legal(t.a) /\ Legal(t.b)
    [] t.k = "fcallx"  -> \A i \in 1..Len(t.args) : Legal(t.args[i])
    [] OTHER           -> TRUE

----------------------------------------------------------------------------
(* MECHANISM: the Pratt loop of parser/expression_parser.go *)
LOWEST == 1  cOR == 2  cAND == 3  cREGEX == 4  cEQUALS == 5  cLESSGREATER == 6  cCONCAT == 7
cPREFIX == 8  cPOSTFIX == 9  cCALL == 10
\* parser.precedences
CodePrec(ty) ==
  CASE ty \in {"EQUAL", "NOTEQUAL"} -> cEQUALS
    [] ty \in {"GREATER_THAN", "GREATER_THAN_EQUAL", "LESS_THAN", "LESS_THAN_EQUAL"} -> cLESSGREATER
    [] ty \in {"REGEX", "NOT_REGEX_MATCH"} -> cREGEX
    [] ty \in {"PLUS", "STRING", "OPEN_LONG_STRING", "IDENT", "IF"} -> cCONCAT
    [] ty = "LEFT_PAREN" -> cCALL
    [] ty = "AND" -> cAND
    [] ty = "OR" -> cOR
    [] ty = "PERCENT" -> cPOSTFIX
    [] OTHER -> LOWEST
InfixOps == {"MINUS", "EQUAL", "NOTEQUAL", "GREATER_THAN", "GREATER_THAN_EQUAL", "LESS_THAN", "LESS_THAN_EQUAL",
             "REGEX", "NOT_REGEX_MATCH", "AND", "OR"}           \* p.infixParsers -> ParseInfixExpression
ConcatStart == {"IF", "STRING", "OPEN_LONG_STRING", "IDENT"}    \* -> ParseInfixStringConcatExpression(left, false)

Err(i) == [tree |-> [k |-> "error"], next |-> i, ok |-> FALSE]
Ok(t, i) == [tree |-> t, next |-> i, ok |-> TRUE]
EOFTok == T("EOF", "")
At(toks, i) == IF i <= Len(toks) THEN toks[i] ELSE EOFTok

\* ParseExpr(toks, i, prec): the expression starting at token i (the parser's curToken); next = index of the
\* parser's peekToken when it returns
RECURSIVE ParseExpr(_, _, _)
RECURSIVE PrattLoop(_, _, _, _)
RECURSIVE ParseArgs(_, _, _)
ParsePrefixPart(toks, i) ==
  LET c == At(toks, i) IN
  CASE c.ty \in {"IDENT", "ERROR", "RESTART"} -> Ok(Ident(c.v), i + 1)
    [] c.ty \in {"STRING", "OPEN_LONG_STRING"} -> Ok(String(c.v), i + 1)
    [] c.ty = "INT"   -> Ok(Int(c.v), i + 1)
    [] c.ty = "FLOAT" -> Ok(Float(c.v), i + 1)
    [] c.ty = "RTIME" -> Ok(RTime(c.v), i + 1)
    [] c.ty \in {"TRUE", "FALSE"} -> Ok(Bool(c.ty = "TRUE"), i + 1)
    [] c.ty \in {"NOT", "MINUS", "PLUS"} ->                        \* ParsePrefixExpression
         LET r == ParseExpr(toks, i + 1, cPREFIX) IN IF r.ok THEN Ok(Prefix(c.s, r.tree), r.next) ELSE r
    [] c.ty = "LEFT_PAREN" ->                                      \* ParseGroupedExpression
         LET r == ParseExpr(toks, i + 1, LOWEST) IN
         IF ~r.ok THEN r ELSE IF At(toks, r.next).ty = "RIGHT_PAREN" THEN Ok(Group(r.tree), r.next + 1) ELSE Err(r.next)
    [] c.ty = "IF" ->                                              \* ParseIfExpression
         IF At(toks, i + 1).ty # "LEFT_PAREN" THEN Err(i + 1)
         ELSE LET rc == ParseExpr(toks, i + 2, LOWEST) IN
              IF ~rc.ok THEN rc ELSE IF At(toks, rc.next).ty # "COMMA" THEN Err(rc.next)
              ELSE LET ra == ParseExpr(toks, rc.next + 1, LOWEST) IN
                   IF ~ra.ok THEN ra ELSE IF At(toks, ra.next).ty # "COMMA" THEN Err(ra.next)
                   ELSE LET rb == ParseExpr(toks, ra.next + 1, LOWEST) IN
                        IF ~rb.ok THEN rb ELSE IF At(toks, rb.next).ty # "RIGHT_PAREN" THEN Err(rb.next)
                        ELSE Ok(IfX(rc.tree, ra.tree, rb.tree), rb.next + 1)
    [] OTHER -> Err(i)                                             \* UndefinedPrefix
\* ParseFunctionArgumentExpressions; i = index of the token after "("
ParseArgs(toks, i, acc) ==
  IF acc = <<>> /\ At(toks, i).ty = "RIGHT_PAREN" THEN Ok(acc, i + 1)
  ELSE LET r == ParseExpr(toks, i, LOWEST) IN
       IF ~r.ok THEN r
       ELSE IF At(toks, r.next).ty = "COMMA" THEN ParseArgs(toks, r.next + 1, Append(acc, r.tree))
       ELSE IF At(toks, r.next).ty = "RIGHT_PAREN" THEN Ok(Append(acc, r.tree), r.next + 1)
       ELSE Err(r.next)
\* for !p.PeekTokenIs(SEMICOLON) && precedence < p.peekPrecedence() { ... }   (j = index of peekToken)
PrattLoop(toks, left, j, prec) ==
  LET p == At(toks, j) IN
  IF p.ty = "SEMICOLON" \/ ~(prec < CodePrec(p.ty)) THEN Ok(left, j)
  ELSE IF p.ty = "PLUS" THEN                                      \* explicit concatenation: skip the +
         LET r == ParseExpr(toks, j + 1, CodePrec(p.ty)) IN
         IF r.ok THEN PrattLoop(toks, Infix("+", left, r.tree), r.next, prec) ELSE r
  ELSE IF p.ty \in ConcatStart THEN                               \* juxtaposition: the operand starts here
         LET r == ParseExpr(toks, j, CodePrec(p.ty)) IN
         IF r.ok THEN PrattLoop(toks, Infix("+", left, r.tree), r.next, prec) ELSE r
  ELSE IF p.ty \in InfixOps THEN                                  \* ParseInfixExpression
         LET r == ParseExpr(toks, j + 1, CodePrec(p.ty)) IN
         IF r.ok THEN PrattLoop(toks, Infix(p.s, left, r.tree), r.next, prec) ELSE r
  ELSE IF p.ty = "LEFT_PAREN" THEN                                \* ParseFunctionCallExpression
         IF left.k # "ident" THEN Err(j)
         ELSE LET a == ParseArgs(toks, j + 1, <<>>) IN
              IF a.ok THEN PrattLoop(toks, CallX(left.v, a.tree), a.next, prec) ELSE a
  ELSE IF p.ty = "PERCENT" THEN PrattLoop(toks, Postfix(p.s, left), j + 1, prec)   \* postfix
  ELSE Ok(left, j)
ParseExpr(toks, i, prec) ==
  LET l == ParsePrefixPart(toks, i) IN IF l.ok THEN PrattLoop(toks, l.tree, l.next, prec) ELSE l
\* the whole token sequence is one expression followed by ";"
Pratt(toks) == ParseExpr(toks \o <<Semi>>, 1, LOWEST)
PrattAgrees(s) == LET r == Pratt(Render(s)) IN r.ok /\ r.tree = Strip(s) /\ r.next = Len(Render(s)) + 1
----------------------------------------------------------------------------
(* abstract syntax: statements and declarations (docs/parser.md, one production each).  Fields that only    *)
(* choose between spellings of the same tree (return with / without parentheses, call f; / call f();,       *)
(* include with / without ";", the else-if keyword, the comma after the last table entry, an empty          *)
(* parameter list written as () or not at all) are presentation:                                            *)
(* Render uses them, StripStmt drops them.                                                                  *)
None == [k |-> "none"]
Block(ss) == [k |-> "block", stmts |-> ss]
SetS(id, op, e) == [k |-> "set", ident |-> id, op |-> op, value |-> e]
AddS(id, op, e) == [k |-> "add", ident |-> id, op |-> op, value |-> e]
UnsetS(id) == [k |-> "unset", ident |-> id]
RemoveS(id) == [k |-> "remove", ident |-> id]
DeclareS(n, ty, v) == [k |-> "declare", name |-> n, vtype |-> ty, value |-> v]
CallS(f, args, parens) == [k |-> "call", sub |-> f, args |-> args, parens |-> parens]
FCallS(f, args) == [k |-> "fcall", fn |-> f, args |-> args]
ErrorS(code, arg) == [k |-> "error", code |-> code, arg |-> arg]
Simple(kind) == [k |-> kind]                                  \* esi restart break fallthrough
ValueS(kind, e) == [k |-> kind, value |-> e]                  \* log synthetic synthetic64
GotoS(d) == [k |-> "goto", dest |-> d]
LabelS(n) == [k |-> "label", name |-> n]                      \* the name carries its colon: the lexer glues it
ReturnS(e, paren) == [k |-> "return", expr |-> e, paren |-> paren]
IncludeS(m, semi) == [k |-> "include", module |-> m, semi |-> semi]
ImportS(n) == [k |-> "import", name |-> n]
Elif(kw, c, blk) == [kw |-> kw, cond |-> c, then |-> blk]     \* kw: "else if" | "elseif" | "elsif"
IfS(c, blk, elifs, els) == [k |-> "if", cond |-> c, then |-> blk, elifs |-> elifs, else |-> els]
CaseC(test, ss) == [test |-> test, stmts |-> ss]              \* test: None (default) | [op |-> "==" | "~", right |-> e]
SwitchS(ctl, cases) == [k |-> "switch", control |-> ctl, cases |-> cases]
Cidr(inv, ip, mask) == [inverse |-> inv, ip |-> ip, mask |-> mask]
AclD(n, cidrs) == [k |-> "acl", name |-> n, cidrs |-> cidrs]
Prop(key, v) == [k |-> "prop", key |-> key, value |-> v]
Probe(props) == [k |-> "probe", props |-> props]
BackendD(n, props) == [k |-> "backend", name |-> n, props |-> props]
BackendObj(props) == [k |-> "backendobj", props |-> props]
DirectorD(n, ty, props) == [k |-> "director", name |-> n, type |-> ty, props |-> props]
TProp(key, v) == [key |-> key, value |-> v]
TableD(n, vt, props, lastComma) == [k |-> "table", name |-> n, vtype |-> vt, props |-> props, lastComma |-> lastComma]
Param(ty, n) == [type |-> ty, name |-> n]
SubD(n, params, rt, blk) == [k |-> "sub", name |-> n, params |-> params, rtype |-> rt, block |-> blk]
\* parens = TRUE writes the parameter list even when it is empty: sub f() { ... }, sub f() STRING { ... }  (presentation)
SubDP(n, params, rt, blk, parens) == [k |-> "sub", name |-> n, params |-> params, rtype |-> rt, block |-> blk, parens |-> parens]
HasParens(s) == s.params # <<>> \/ ("parens" \in DOMAIN s /\ s.parens)
PenaltyboxD(n) == [k |-> "penaltybox", name |-> n]
RatecounterD(n) == [k |-> "ratecounter", name |-> n]
Vcl(ds) == [k |-> "vcl", stmts |-> ds]

RECURSIVE Cat(_)
Cat(seqs) == IF seqs = <<>> THEN <<>> ELSE Head(seqs) \o Cat(Tail(seqs))
Opt(e) == IF e.k = "none" THEN <<>> ELSE Render(e)
RECURSIVE RenderStmt(_)
RenderStmts(ss) == Cat([i \in 1..Len(ss) |-> RenderStmt(ss[i])])
RenderProps(ps) == Cat([i \in 1..Len(ps) |-> RenderStmt(ps[i])])
RenderStmt(s) ==
  CASE s.k \in {"set", "add"} -> <<Kw(s.k), Id(s.ident), AOp(s.op)>> \o Render(s.value) \o <<Semi>>
    [] s.k \in {"unset", "remove"} -> <<Kw(s.k), Id(s.ident), Semi>>
    [] s.k = "declare" -> <<Kw("declare"), Id("local"), Id(s.name), Id(s.vtype)>>
                          \o (IF s.value.k = "none" THEN <<>> ELSE <<Assign>> \o Render(s.value)) \o <<Semi>>
    [] s.k = "call"    -> <<Kw("call"), Id(s.sub)>> \o (IF s.parens THEN <<LP>> \o RenderArgs(s.args) \o <<RP>> ELSE <<>>) \o <<Semi>>
    [] s.k = "fcall"   -> <<Id(s.fn), LP>> \o RenderArgs(s.args) \o <<RP, Semi>>
    [] s.k = "error"   -> <<Kw("error")>> \o Opt(s.code) \o Opt(s.arg) \o <<Semi>>
    [] s.k \in {"esi", "restart", "break", "fallthrough"} -> <<Kw(s.k), Semi>>
    [] s.k \in {"log", "synthetic"} -> <<Kw(s.k)>> \o Render(s.value) \o <<Semi>>
    [] s.k = "synthetic64" -> <<Kw("synthetic.base64")>> \o Render(s.value) \o <<Semi>>
    [] s.k = "goto"    -> <<Kw("goto"), Id(s.dest), Semi>>
    [] s.k = "label"   -> <<Id(s.name)>>
    [] s.k = "return"  -> <<Kw("return")>> \o (IF s.expr.k = "none" THEN <<>>
                                               ELSE IF s.paren THEN <<LP>> \o Render(s.expr) \o <<RP>> ELSE Render(s.expr)) \o <<Semi>>
    [] s.k = "include" -> <<Kw("include"), Str(s.module)>> \o (IF s.semi THEN <<Semi>> ELSE <<>>)
    [] s.k = "import"  -> <<Kw("import"), Id(s.name), Semi>>
    [] s.k = "block"   -> <<LB>> \o RenderStmts(s.stmts) \o <<RB>>
    [] s.k = "if"      -> <<Kw("if"), LP>> \o Render(s.cond) \o <<RP>> \o RenderStmt(s.then)
                          \o Cat([i \in 1..Len(s.elifs) |->
                                   (IF s.elifs[i].kw = "else if" THEN <<Kw("else"), Kw("if")>> ELSE <<Kw(s.elifs[i].kw)>>)
                                   \o <<LP>> \o Render(s.elifs[i].cond) \o <<RP>> \o RenderStmt(s.elifs[i].then)])
                          \o (IF s.else.k = "none" THEN <<>> ELSE <<Kw("else")>> \o RenderStmt(s.else))
    [] s.k = "switch"  -> <<Kw("switch"), LP>> \o Render(s.control) \o <<RP, LB>>
                          \o Cat([i \in 1..Len(s.cases) |->
                                   (IF s.cases[i].test.k = "none" THEN <<Kw("default")>>
                                    ELSE <<Kw("case")>> \o (IF s.cases[i].test.op = "~" THEN <<Op("~")>> ELSE <<>>) \o Render(s.cases[i].test.right))
                                   \o <<Colon>> \o RenderStmts(s.cases[i].stmts)])
                          \o <<RB>>
    \* declarations
    [] s.k = "acl"     -> <<Kw("acl"), Id(s.name), LB>>
                          \o Cat([i \in 1..Len(s.cidrs) |->
                                   (IF s.cidrs[i].inverse THEN <<Op("!")>> ELSE <<>>) \o <<Str(s.cidrs[i].ip)>>
                                   \o (IF s.cidrs[i].mask.k = "none" THEN <<>> ELSE <<Op("/")>> \o Render(s.cidrs[i].mask)) \o <<Semi>>])
                          \o <<RB>>
    [] s.k = "prop"    -> <<Dot, IF s.key = "backend" THEN Kw("backend") ELSE Id(s.key), Assign>>
                          \o (IF s.value.k = "probe" THEN <<LB>> \o RenderProps(s.value.props) \o <<RB>>
                              ELSE Render(s.value) \o <<Semi>>)
    [] s.k = "backend" -> <<Kw("backend"), Id(s.name), LB>> \o RenderProps(s.props) \o <<RB>>
    [] s.k = "backendobj" -> <<LB>> \o RenderProps(s.props) \o <<RB>>
    [] s.k = "director" -> <<Kw("director"), Id(s.name), Id(s.type), LB>> \o RenderProps(s.props) \o <<RB>>
    [] s.k = "table"   -> <<Kw("table"), Id(s.name)>> \o (IF s.vtype.k = "none" THEN <<>> ELSE <<Id(s.vtype.v)>>) \o <<LB>>
                          \o Cat([i \in 1..Len(s.props) |->
                                   <<Str(s.props[i].key), Colon>> \o Render(s.props[i].value)
                                   \o (IF i < Len(s.props) \/ s.lastComma THEN <<Comma>> ELSE <<>>)])
                          \o <<RB>>
    [] s.k = "sub"     -> <<Kw("sub"), Id(s.name)>>
                          \o (IF ~HasParens(s) THEN <<>>
                              ELSE <<LP>> \o Cat([i \in 1..Len(s.params) |->
                                                   <<Id(s.params[i].type), Id(s.params[i].name)>>
                                                   \o (IF i < Len(s.params) THEN <<Comma>> ELSE <<>>)]) \o <<RP>>)
                          \o (IF s.rtype.k = "none" THEN <<>> ELSE <<Id(s.rtype.v)>>)
                          \o RenderStmt(s.block)
    [] s.k \in {"penaltybox", "ratecounter"} -> <<Kw(s.k), Id(s.name), LB, RB>>
    [] s.k = "vcl"     -> RenderStmts(s.stmts)

\* the projection the parser must return
OptStrip(e) == IF e.k = "none" THEN None ELSE Strip(e)
RECURSIVE StripStmt(_)
StripStmts(ss) == [i \in 1..Len(ss) |-> StripStmt(ss[i])]
StripStmt(s) ==
  CASE s.k \in {"set", "add"} -> [s EXCEPT !.value = Strip(@)]
    [] s.k = "declare" -> [s EXCEPT !.value = OptStrip(@)]
    [] s.k = "call"    -> [k |-> "call", sub |-> s.sub, args |-> StripSeq(s.args)]
    [] s.k = "fcall"   -> [s EXCEPT !.args = StripSeq(@)]
    [] s.k = "error"   -> [s EXCEPT !.code = OptStrip(@), !.arg = OptStrip(@)]
    [] s.k \in {"log", "synthetic", "synthetic64"} -> [s EXCEPT !.value = Strip(@)]
    [] s.k = "return"  -> [k |-> "return", expr |-> OptStrip(s.expr)]
    [] s.k = "include" -> [k |-> "include", module |-> s.module]
    [] s.k = "block"   -> Block(StripStmts(s.stmts))
    [] s.k = "if"      -> [k |-> "if", cond |-> Strip(s.cond), then |-> StripStmt(s.then),
                           elifs |-> [i \in 1..Len(s.elifs) |-> [cond |-> Strip(s.elifs[i].cond), then |-> StripStmt(s.elifs[i].then)]],
                           else |-> IF s.else.k = "none" THEN None ELSE StripStmt(s.else)]
    [] s.k = "switch"  -> [k |-> "switch", control |-> Strip(s.control),
                           cases |-> [i \in 1..Len(s.cases) |->
                                       [test |-> IF s.cases[i].test.k = "none" THEN None
                                                 ELSE [k |-> "test", op |-> s.cases[i].test.op, right |-> Strip(s.cases[i].test.right)],
                                        stmts |-> StripStmts(s.cases[i].stmts),
                                        fallthrough |-> s.cases[i].stmts[Len(s.cases[i].stmts)].k = "fallthrough"]]]
    [] s.k = "acl"     -> [k |-> "acl", name |-> s.name,
                           cidrs |-> [i \in 1..Len(s.cidrs) |-> [inverse |-> s.cidrs[i].inverse, ip |-> s.cidrs[i].ip,
                                                                  mask |-> OptStrip(s.cidrs[i].mask)]]]
    [] s.k = "prop"    -> [s EXCEPT !.value = IF @.k = "probe" THEN Probe(StripStmts(@.props)) ELSE Strip(@)]
    [] s.k \in {"backend", "backendobj", "director"} -> [s EXCEPT !.props = StripStmts(@)]
    [] s.k = "table"   -> [k |-> "table", name |-> s.name, vtype |-> s.vtype,
                           props |-> [i \in 1..Len(s.props) |-> [key |-> s.props[i].key, value |-> Strip(s.props[i].value)]]]
    [] s.k = "sub"     -> SubD(s.name, s.params, s.rtype, StripStmt(s.block))
    [] s.k = "vcl"     -> Vcl(StripStmts(s.stmts))
    [] OTHER           -> s

\* MECHANISM: the dispatch of Parser.Parse (top level) and Parser.ParseStatement (in a block) on the first token
\* type (and, for an identifier, on whether "(" follows)
DispatchTop(ty) ==
  CASE ty = "ACL" -> "acl" [] ty = "IMPORT" -> "import" [] ty = "INCLUDE" -> "include" [] ty = "BACKEND" -> "backend"
    [] ty = "DIRECTOR" -> "director" [] ty = "TABLE" -> "table" [] ty = "SUBROUTINE" -> "sub"
    [] ty = "PENALTYBOX" -> "penaltybox" [] ty = "RATECOUNTER" -> "ratecounter" [] OTHER -> "error"
DispatchStmt(ty, next) ==
  CASE ty = "LEFT_BRACE" -> "block" [] ty = "SET" -> "set" [] ty = "UNSET" -> "unset" [] ty = "REMOVE" -> "remove"
    [] ty = "ADD" -> "add" [] ty = "CALL" -> "call" [] ty = "DECLARE" -> "declare" [] ty = "ERROR" -> "error"
    [] ty = "ESI" -> "esi" [] ty = "LOG" -> "log" [] ty = "RESTART" -> "restart" [] ty = "RETURN" -> "return"
    [] ty = "SYNTHETIC" -> "synthetic" [] ty = "SYNTHETIC_BASE64" -> "synthetic64" [] ty = "IF" -> "if"
    [] ty = "SWITCH" -> "switch" [] ty = "GOTO" -> "goto" [] ty = "INCLUDE" -> "include" [] ty = "BREAK" -> "break"
    [] ty = "FALLTHROUGH" -> "fallthrough"
    [] ty = "IDENT" -> IF next = "LEFT_PAREN" THEN "fcall" ELSE "label"
    [] OTHER -> "error"
DispatchAgrees(st, top) ==
  LET toks == RenderStmt(st) IN
  IF top THEN DispatchTop(toks[1].ty) = st.k ELSE DispatchStmt(toks[1].ty, At(toks, 2).ty) = st.k
=============================================================================
