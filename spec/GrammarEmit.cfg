SPECIFICATION Spec
CONSTANTS
  Full = FALSE
  Families = {"pairs", "atoms", "stmts", "decls"}
INVARIANTS
  Emit
  EmitRequired
CHECK_DEADLOCK FALSE
