SPECIFICATION Spec
CONSTANTS
  Full = FALSE
  Families = {"pairs", "atoms", "stmts", "decls"}
INVARIANTS
  Emit
CHECK_DEADLOCK FALSE
