SPECIFICATION Spec
CONSTANTS
  Full = FALSE
  Families = {"pairs", "atoms", "stmts", "decls"}
INVARIANTS
  PrattOK
  DispatchOK
  Emit
  EmitRequired
CHECK_DEADLOCK FALSE
