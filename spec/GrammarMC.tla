----------------------------- MODULE GrammarMC -----------------------------
(***************************************************************************)
(* Bounded generation for C02 over Grammar.tla.  A case is [fam, vcl] (a    *)
(* whole program) and, for the expression families, the expression e in it. *)
(* TLC checks on every case PrattOK (the Pratt mechanism returns the        *)
(* written tree), DispatchOK (statement dispatch picks the written kind)    *)
(* and prints the case - token texts and the projection the parser must     *)
(* return - for replay against the real parser.                             *)
(* Families selects the generators; Full (thorough tier) writes the         *)
(* two-operator trees in both parenthesis modes and both contexts.          *)
(***************************************************************************)
EXTENDS Grammar, Json

CONSTANTS Full, Families

A == Ident("req.http.A")   B == Ident("req.http.B")   S == String("s")
BinOps == {"||", "&&", "~", "!~", "==", "!=", "<", ">", "<=", ">=", "+", "juxt"}
Bin(o, l, r) == [k |-> "infix", op |-> o, left |-> l, right |-> r]
Not(e) == Prefix("!", e)

\* ---- exhaustive operator pairs / triples
T0 == {A, S, Not(A)}
Q0 == {A, S}
T1 == {Bin(o, l, r) : o \in BinOps, l \in Q0, r \in Q0}          \* one operator; as a child: plain or negated
T1x == {Bin(o, l, r) : o \in BinOps, l \in T0, r \in T0}         \* one operator with a negated operand (top level only)
T1n == T1 \cup {Not(t) : t \in T1}
T2 == {Bin(o, l, r) : o \in BinOps, l \in T1n, r \in T0} \cup {Bin(o, l, r) : o \in BinOps, l \in T0, r \in T1n}
\* three operators over a single atom: every shape, every ordered triple of one operator per precedence level
LevelOps == {"||", "&&", "~", "==", "<", "juxt"}
U0 == {A}
U1 == {Bin(o, l, r) : o \in LevelOps, l \in U0, r \in U0}
U1n == U1 \cup {Not(t) : t \in U1}
U2 == {Bin(o, l, r) : o \in LevelOps, l \in U1n, r \in U0} \cup {Bin(o, l, r) : o \in LevelOps, l \in U0, r \in U1n}
U3 == {Bin(o, l, r) : o \in LevelOps, l \in U2, r \in U0} \cup {Bin(o, l, r) : o \in LevelOps, l \in U0, r \in U2}
      \cup {Bin(o, l, r) : o \in LevelOps, l \in U1, r \in U1}
\* ---- every atom kind next to every operator
Rich == {A, S, LongString("ls"), Int("1"), Float("1.5"), RTime("2s"), Bool(TRUE), Bool(FALSE), Prefix("-", Int("1")),
         Prefix("-", A), Not(A), Postfix("%", Int("50")), CallX("f", <<>>), CallX("std.g", <<A>>), CallX("f", <<A, S>>),
         IfX(A, S, B), IfX(Bin("==", A, S), Bin("juxt", S, A), CallX("f", <<S>>)), Group(A),
         CallX("f", <<Bin("&&", A, B), IfX(A, S, S)>>),
         \* a construct nested in itself
         IfX(IfX(A, B, A), IfX(B, S, A), IfX(A, S, IfX(B, S, S))), CallX("f", <<CallX("g", <<CallX("h", <<A>>), S>>)>>),
         Group(Group(Bin("==", A, S))), Not(Not(A)), Prefix("-", Prefix("-", Int("1"))),
         \* long strings with a delimiter; a quote and a %-escape inside stay as written
         LongStringD("x y", "XYZ"), LongStringD("a\"b %41", "J1"),
         \* identifiers spelled like operators / keywords / with every continuation character; more literal spellings
         Ident("rol"), Ident("var.ror"), Ident("req.http.default"), Ident("req.http.Cookie:a-b"), Ident("obj.if"), Ident("v4_x"),
         CallX("rol", <<Ident("ror")>>), Int("0"), Float("0.5"), RTime("100ms"), RTime("1.5h"), RTime("3d"), RTime("2y"), RTime("7m"),
         String(""), String("a b"), LongString(""),
         \* comment markers, braces and a line break inside strings; negative float / RTIME
         String("http://x/#y /* z */"), LongString("a\nb } {"), LongStringD("{\"x\"}", "Q"), Prefix("-", Float("1.5")), Prefix("-", RTime("2s"))}
\* every atom on either side of every operator, beside three (quick) / eight (thorough) partners of different kinds
\* (all 48 x 48 pairs cost TLC's single-threaded set construction more than ten minutes and add little)
Partners == IF Full THEN {A, S, Int("1"), LongString("ls"), CallX("f", <<>>), IfX(A, S, B), Group(A), Not(A)} ELSE {A, S, Int("1")}
R1 == {Bin(o, x, p) : o \in BinOps, x \in Rich, p \in Partners} \cup {Bin(o, p, x) : o \in BinOps, x \in Rich, p \in Partners}
\* the contexts an expression is written in: the value of a set statement (ends at ";"), an if condition (ends at
\* ")"), the first and the last argument of a function call (ends at "," / ")")
ExprCtx(e, ctx) ==
  CASE ctx = "set" -> SubD("s", <<>>, None, Block(<<SetS("req.http.R", "=", e)>>))
    [] ctx = "if"  -> SubD("s", <<>>, None, Block(<<IfS(e, Block(<<Simple("esi")>>), <<>>, None)>>))
    [] ctx = "arg" -> SubD("s", <<>>, None, Block(<<SetS("req.http.R", "=", CallX("f", <<e, A, e>>))>>))
Ctxs == {"set", "if", "arg"}
\* Every ordered pair of operators nested directly, on either side, over one atom kind per side (so that a
\* juxtaposition is legal): (a o1 s) o2 a  and  a o1 (s o2 a) for all 13 x 13 pairs - with minimal parentheses the
\* tighter operator stands un-parenthesised on the left and on the right of the looser one.
N2 == {Bin(o2, Bin(o1, A, S), A) : o1 \in BinOps, o2 \in BinOps} \cup {Bin(o1, A, Bin(o2, S, A)) : o1 \in BinOps, o2 \in BinOps}
\* chains of three operators of strictly increasing tightness, nested to the right and to the left, so that the
\* innermost un-parenthesised operand sits below two looser operators (x || y && z ~ "a" b)
N3 == {Bin(o1, A, Bin(o2, B, Bin(o3, S, A))) : o1 \in BinOps, o2 \in BinOps, o3 \in BinOps}
      \cup {Bin(o1, Bin(o2, Bin(o3, A, S), B), A) : o1 \in BinOps, o2 \in BinOps, o3 \in BinOps}
N3inc == {t \in N3 : LET a == t.op
                         m == IF t.right.k = "infix" THEN t.right.op ELSE t.left.op
                         i == IF t.right.k = "infix" THEN t.right.right.op ELSE t.left.left.op
                     IN DocPrec(a) < DocPrec(m) /\ DocPrec(m) < DocPrec(i)}
Both == {"minimal", "redundant"}
\* which tree is written in which parenthesis mode and context (Full = thorough tier)
ExprSel ==
  (IF "pairs" \in Families
   THEN {<<t, m, c>> : t \in T0 \cup T1n \cup T1x \cup N2, m \in Both, c \in Ctxs}
        \cup {<<t, "minimal", c>> : t \in N3inc, c \in Ctxs}
        \cup {<<t, m, c>> : t \in T2, m \in (IF Full THEN Both ELSE {"minimal"}), c \in (IF Full THEN {"set", "if"} ELSE {"set"})}
   ELSE {})
  \cup (IF "atoms" \in Families
        THEN {<<t, m, c>> : t \in Rich, m \in Both, c \in {"set", "if"}} \cup {<<t, m, "set">> : t \in R1, m \in Both}
        ELSE {})
  \cup (IF "triples" \in Families THEN {<<t, m, "set">> : t \in U3, m \in Both} ELSE {})
ExprCases == {<<"expr", x>> : x \in ExprSel}

\* ---- statements
Es == {A, S, Bin("==", A, S), Bin("juxt", S, A), CallX("f", <<A>>)}
AssignOpSet == {"=", "+=", "-=", "*=", "/=", "%=", "|=", "&=", "^=", "<<=", ">>=", "rol=", "ror=", "&&=", "||="}
Simples ==
  {SetS("req.http.X", o, Int("1")) : o \in AssignOpSet} \cup {SetS("var.v", "=", e) : e \in Es}
  \cup {AddS("resp.http.Set-Cookie", "=", e) : e \in {S, Bin("juxt", S, A)}}
  \cup {UnsetS("req.http.X"), UnsetS("req.http.Cookie:sess"), UnsetS("req.http.X-*"), RemoveS("req.http.X")}
  \cup {DeclareS("var.v", ty, None) : ty \in {"STRING", "INTEGER", "BOOL", "FLOAT", "RTIME", "IP", "TIME"}}
  \cup {DeclareS("var.v", "STRING", e) : e \in {S, Bin("juxt", S, A)}} \cup {DeclareS("var.i", "INTEGER", Int("10"))}
  \cup {CallS("f", <<>>, FALSE), CallS("f", <<>>, TRUE), CallS("f", <<A>>, TRUE), CallS("f", <<A, Bin("==", A, S)>>, TRUE)}
  \cup {FCallS("std.collect", <<>>), FCallS("std.collect", <<A>>), FCallS("h.f", <<A, S>>), FCallS("f", <<Bin("juxt", S, A), CallX("g", <<A>>)>>)}
  \cup {ErrorS(None, None), ErrorS(Int("503"), None), ErrorS(Int("503"), S), ErrorS(Int("503"), Bin("juxt", S, A)),
        ErrorS(Ident("var.code"), None), ErrorS(Ident("var.code"), S), ErrorS(CallX("f", <<A>>), None), ErrorS(CallX("f", <<>>), S)}
  \cup {Simple("esi"), Simple("restart")}
  \cup {ValueS(k, e) : k \in {"log", "synthetic", "synthetic64"}, e \in {S, Bin("juxt", S, A), Bin("+", S, A), LongString("ls")}}
  \cup {GotoS("done"), LabelS("done:"), CallS("rol", <<>>, FALSE), CallS("ror", <<A>>, TRUE), FCallS("ror", <<>>), SetS("var.rol", "rol=", Int("1")),
        SetS("req.http.default", "=", S), UnsetS("req.http.if"), DeclareS("var.ror", "INTEGER", None)}
  \cup {ReturnS(None, FALSE), ReturnS(Ident("lookup"), TRUE), ReturnS(Ident("lookup"), FALSE), ReturnS(Bin("==", A, S), FALSE),
        ReturnS(Bin("==", A, S), TRUE), ReturnS(Bool(TRUE), FALSE), ReturnS(Ident("restart"), TRUE), ReturnS(Ident("error"), TRUE)}
  \cup {IncludeS("mod", TRUE), IncludeS("mod", FALSE)}
  \cup {Block(<<>>), Block(<<Simple("esi")>>), Block(<<Block(<<Simple("restart")>>), Simple("esi")>>)}
ElifKws == {"else if", "elseif", "elsif"}
\* every place where a statement or declaration holds an expression, filled from the expression grammar (not only
\* with an atom): juxtaposition, +, infix, group, if(), call, prefix ! and -, a three-level chain, a long string.
\* (A return value or an error argument after an identifier code may not START with "(": that spells another tree.)
SlotExprs == {Bin("juxt", S, A), Bin("+", S, A), Bin("==", A, S), Group(Bin("juxt", S, A)), IfX(A, S, S), CallX("f", <<A>>), Not(A),
              Bin("&&", A, Bin("~", A, Bin("juxt", S, B))), LongString("ls"), Prefix("-", Int("1"))}
NoParenStart == {e \in SlotExprs : e.k # "group"}
SlotStmts ==
  {ErrorS(Int("503"), e) : e \in SlotExprs} \cup {ErrorS(Ident("var.code"), e) : e \in NoParenStart}
  \cup {ReturnS(e, FALSE) : e \in NoParenStart} \cup {ReturnS(e, TRUE) : e \in SlotExprs}
  \cup {CallS("f", <<e, A, e>>, TRUE) : e \in SlotExprs} \cup {FCallS("std.f", <<e>>) : e \in SlotExprs}
  \cup {DeclareS("var.v", "STRING", e) : e \in SlotExprs} \cup {AddS("resp.http.X", "=", e) : e \in SlotExprs}
  \cup {ValueS(k, e) : k \in {"log", "synthetic", "synthetic64"}, e \in SlotExprs}
  \cup {IfS(A, Block(<<>>), <<Elif(kw, e, Block(<<Simple("esi")>>))>>, None) : kw \in ElifKws, e \in SlotExprs}
  \cup {SwitchS(Bin("juxt", S, String("t")), <<CaseC([k |-> "test", op |-> "==", right |-> String("a")], <<Simple("break")>>)>>)}
Esi == Simple("esi")
Bodies == {Block(<<>>), Block(<<Esi>>), Block(<<SetS("req.http.X", "=", S), Simple("restart")>>)}
Chains(n) == \* all keyword spellings for a chain of n else-ifs
  IF n = 0 THEN {<<>>}
  ELSE IF n = 1 THEN {<<Elif(k1, B, Block(<<Esi>>))>> : k1 \in ElifKws}
  ELSE IF n = 2 THEN {<<Elif(k1, B, Block(<<Esi>>)), Elif(k2, Bin("!=", A, S), Block(<<>>))>> : k1 \in ElifKws, k2 \in ElifKws}
  ELSE {<<Elif(k1, B, Block(<<Esi>>)), Elif(k2, Bin("!=", A, S), Block(<<>>)), Elif(k3, Not(A), Block(<<Simple("restart")>>))>> :
          k1 \in ElifKws, k2 \in ElifKws, k3 \in ElifKws}
Ifs0 == {IfS(c, b, ch, el) : c \in {A, Bin("&&", A, B)}, b \in Bodies, ch \in Chains(0) \cup Chains(1) \cup Chains(2) \cup Chains(3),
                             el \in {None, Block(<<Esi>>), Block(<<>>)}}
Brk == Simple("break")   Ft == Simple("fallthrough")
Eq(v) == [k |-> "test", op |-> "==", right |-> String(v)]
Re(v) == [k |-> "test", op |-> "~", right |-> String(v)]
ReL(v) == [k |-> "test", op |-> "~", right |-> LongString(v)]        \* case ~ {"..."}:
CaseSets ==
  {<<CaseC(Eq("a"), <<Brk>>)>>, <<CaseC(None, <<Esi, Brk>>)>>, <<CaseC(Re("^a"), <<Esi, Brk>>)>>}
  \cup {<<CaseC(t1, <<Esi, e1>>), CaseC(t2, <<Brk>>)>> : t1 \in {Eq("a"), Re("^a"), None}, t2 \in {Eq("b"), Re("^b")}, e1 \in {Brk, Ft}}
  \cup {<<CaseC(Eq("a"), <<e1>>), CaseC(None, <<Esi, e2>>), CaseC(Eq("b"), <<Simple("restart"), Brk>>)>> : e1 \in {Brk, Ft}, e2 \in {Brk, Ft}}
  \cup {<<CaseC(Eq("a"), <<e1>>), CaseC(Re("b"), <<e2>>), CaseC(None, <<Brk>>)>> : e1 \in {Brk, Ft}, e2 \in {Brk, Ft}}
  \cup {<<CaseC(Eq("a"), <<IfS(A, Block(<<Esi>>), <<>>, None), Brk>>), CaseC(Eq("a b"), <<Brk>>)>>}
  \* the same literal under different match operators, and labels that differ only in case / blanks / spelling of
  \* the string are different labels
  \cup {<<CaseC(Eq("a"), <<Brk>>), CaseC(Re("a"), <<Brk>>)>>, <<CaseC(Re("a"), <<Ft>>), CaseC(Eq("a"), <<Brk>>)>>,
        <<CaseC(Eq("a"), <<Brk>>), CaseC(None, <<Brk>>), CaseC(Re("a"), <<Esi, Brk>>)>>,
        <<CaseC(Eq("a"), <<Brk>>), CaseC(Re("a"), <<Brk>>), CaseC(ReL("a"), <<Brk>>), CaseC(Eq("A"), <<Brk>>), CaseC(Eq("a "), <<Brk>>)>>,
        <<CaseC(ReL("a"), <<Ft>>), CaseC(Eq("a"), <<Ft>>), CaseC(Re("a"), <<Brk>>)>>}
\* A case label only has to START with a string literal or with ~ ; after that it is an expression: the string
\* label is ParseExpression(LOWEST) from the literal on (juxtaposition, explicit +, infix operators, calls, if()),
\* the regex label is one operand (ParseExpression(PREFIX): literal, long string, identifier, group, if(), call, !x).
\* Two clauses of the same kind in every switch, so that the duplicate-label check compares them, in both orders,
\* with default absent / first / between / last.
EqE(e) == [k |-> "test", op |-> "==", right |-> e]
ReE(e) == [k |-> "test", op |-> "~", right |-> e]
StrLabels == {String("a"), Bin("juxt", String("a"), String("b")), Bin("+", String("a"), String("c")), Bin("==", String("d"), String("e")),
              Bin("juxt", String("a"), CallX("f", <<A>>)), Bin("juxt", String("g"), IfX(A, S, S)), Bin("juxt", String("a"), A),
              Bin("&&", String("h"), B), Bin("juxt", Bin("juxt", String("a"), String("b")), String("c"))}
ReLabels == {String("a"), Group(String("x")), IfX(A, S, String("z")), CallX("f", <<A>>), A, LongString("ls"),
             Group(Bin("juxt", String("x"), A)), Not(A), Group(Group(String("y")))}
Dflt == CaseC(None, <<Esi, Brk>>)
WithDefault(c1, c2, pos) == CASE pos = "none" -> <<c1, c2>> [] pos = "first" -> <<Dflt, c1, c2>>
                              [] pos = "between" -> <<c1, Dflt, c2>> [] pos = "last" -> <<c1, c2, Dflt>>
DfltPos == {"none", "first", "between", "last"}
LabelCaseSets ==
  {WithDefault(CaseC(EqE(l[1]), <<Brk>>), CaseC(EqE(l[2]), <<Esi, Brk>>), pos) : l \in {q \in StrLabels \X StrLabels : q[1] # q[2]}, pos \in DfltPos}
  \cup {WithDefault(CaseC(ReE(l[1]), <<Ft>>), CaseC(ReE(l[2]), <<Brk>>), pos) : l \in {q \in ReLabels \X ReLabels : q[1] # q[2]}, pos \in DfltPos}
  \cup {<<CaseC(EqE(s1), <<Brk>>), CaseC(ReE(r1), <<Brk>>), Dflt, CaseC(ReE(Group(String("x"))), <<Ft>>), CaseC(EqE(Bin("juxt", String("a"), String("b"))), <<Brk>>)>> :
           s1 \in {String("a"), Bin("+", String("a"), String("c"))}, r1 \in {String("a"), IfX(A, S, String("z"))}}
Switches == {SwitchS(c, cs) : c \in {A, CallX("f", <<A>>), Bool(TRUE), String("s")}, cs \in CaseSets}
            \cup {SwitchS(A, cs) : cs \in LabelCaseSets}
\* nesting depth 2: an if / switch inside the arms of an if
Inners == {IfS(B, Block(<<Esi>>), <<>>, Block(<<>>)), SwitchS(A, <<CaseC(Eq("a"), <<Brk>>)>>), Block(<<LabelS("l:"), GotoS("l")>>)}
Nested == {IfS(A, Block(<<inner>>), <<Elif("elsif", B, Block(<<inner>>))>>, Block(<<inner, Esi>>)) : inner \in Inners}
          \cup {SwitchS(A, <<CaseC(Eq("a"), <<inner, Ft>>), CaseC(None, <<inner, inner, Brk>>)>>) : inner \in Inners}
Stmts == Simples \cup Ifs0 \cup Switches \cup Nested \cup SlotStmts
InSub(ss) == Vcl(<<SubD("vcl_recv", <<>>, None, Block(ss))>>)
StmtCases == {<<"stmt", st>> : st \in Stmts}
\* source order: every ordered pair of a spread of statement kinds, in one block
OrderPool == {SetS("req.http.X", "=", S), UnsetS("req.http.X"), CallS("f", <<>>, FALSE), ErrorS(None, None), Esi,
              ValueS("log", S), ReturnS(None, FALSE), IfS(A, Block(<<>>), <<>>, None), LabelS("l:"), FCallS("f", <<>>),
              IncludeS("m", FALSE), Block(<<>>), DeclareS("var.v", "STRING", None), ErrorS(Int("503"), None)}
PairCases == {<<"order", <<s1, s2>>>> : s1 \in OrderPool, s2 \in OrderPool}

\* long blocks over a small pool: what the parser carries from one statement to the next (the two-token window,
\* prevToken, comments waiting for a node) only shows several statements later
SeqPool == {SetS("req.http.X", "=", Bin("juxt", S, A)), IfS(A, Block(<<Esi>>), <<Elif("else if", B, Block(<<>>))>>, None),
            SwitchS(A, <<CaseC(Eq("a"), <<Brk>>)>>), LabelS("l:"), ReturnS(Ident("lookup"), TRUE), FCallS("f", <<A>>)}
Seq4Cases == {<<"seq", <<s1, s2, s3, s4>>>> : s1 \in SeqPool, s2 \in SeqPool, s3 \in SeqPool, s4 \in SeqPool}

\* ---- declarations
P1 == Prop("host", String("h"))   P2 == Prop("connect_timeout", RTime("1s"))   P3 == Prop("port", String("80"))
PrP == Prop("probe", Probe(<<Prop("request", Bin("juxt", String("GET / HTTP/1.1"), String("Host: x"))), Prop("interval", RTime("5s"))>>))
Pr1 == Prop("probe", Probe(<<Prop("interval", RTime("5s"))>>))
Decls ==
  {AclD("a", cs) : cs \in {<<>>, <<Cidr(FALSE, "10.0.0.0", Int("8"))>>, <<Cidr(TRUE, "10.1.0.0", Int("16")), Cidr(FALSE, "::1", None)>>,
                           <<Cidr(FALSE, "192.168.0.1", None), Cidr(TRUE, "192.168.0.0", Int("24")), Cidr(TRUE, "127.0.0.1", None)>>}}
  \cup {BackendD("b", ps) : ps \in {<<>>, <<P1>>, <<P1, P2>>, <<P1, PrP>>, <<PrP, P3>>, <<Prop("probe", Probe(<<>>))>>, <<Pr1>>, <<Pr1, P1>>,
                                    <<Prop("ssl", Bool(TRUE)), Prop("max_connections", Int("200")), Prop("first_byte_timeout", RTime("1.5s"))>>}}
  \cup {DirectorD("d", ty, ps) : ty \in {"random", "client"},
                                 ps \in {<<>>, <<Prop("quorum", Postfix("%", Int("50")))>>,
                                         <<BackendObj(<<Prop("backend", Ident("b")), Prop("weight", Int("1"))>>)>>,
                                         <<BackendObj(<<>>)>>, <<BackendObj(<<>>), Prop("quorum", Int("1")), BackendObj(<<Prop("backend", Ident("b"))>>)>>,
                                         <<Prop("retries", Int("3")), BackendObj(<<Prop("backend", Ident("b1"))>>), BackendObj(<<Prop("backend", Ident("b2")), Prop("weight", Int("2"))>>)>>}}
  \cup {TableD("t", vt, ps, lc) : vt \in {None, Ident("STRING"), Ident("BACKEND")}, lc \in {TRUE, FALSE},
                                  ps \in {<<>>, <<TProp("a", String("b"))>>, <<TProp("a", String("b")), TProp("c", Ident("d"))>>,
                                          <<TProp("i", Int("1")), TProp("f", Float("1.5")), TProp("b", Bool(TRUE)), TProp("r", RTime("2s")), TProp("l", LongString("x"))>>}}
  \cup {SubD(n, ps, rt, b) : n \in {"vcl_recv"}, b \in {Block(<<>>), Block(<<Esi>>)},
                             ps \in {<<>>}, rt \in {None}}
  \cup {SubD("fn", ps, rt, Block(<<ReturnS(Bin("==", Ident("var.p"), S), FALSE)>>)) :
          ps \in {<<>>, <<Param("STRING", "var.p")>>, <<Param("STRING", "var.p"), Param("INTEGER", "var.q")>>},
          rt \in {None, Ident("BOOL"), Ident("STRING")}}
  \cup {BackendD("b", <<Prop("host", e), P3>>) : e \in SlotExprs} \cup {DirectorD("d", "random", <<Prop("quorum", e)>>) : e \in SlotExprs}
  \cup {BackendD("b", <<Prop("probe", Probe(<<Prop("request", e)>>))>>) : e \in SlotExprs}
  \cup {DirectorD("d", "random", <<BackendObj(<<Prop("backend", e), Prop("weight", Int("1"))>>)>>) : e \in SlotExprs}
  \* every list production with 0, 1, 2 elements: the parameter list written out although it is empty
  \cup {SubDP(n, <<>>, rt, b, TRUE) : n \in {"fn", "vcl_recv"}, rt \in {None, Ident("BOOL"), Ident("STRING")},
                                      b \in {Block(<<>>), Block(<<ReturnS(Bool(TRUE), FALSE)>>), Block(<<Esi, CallS("fn", <<>>, TRUE)>>)}}
  \cup {PenaltyboxD("pb"), RatecounterD("rc"), ImportS("foo"), IncludeS("mod", TRUE), IncludeS("mod", FALSE)}
DeclCases == {<<"decl", d>> : d \in Decls}
\* source order at the top level: every ordered triple of one declaration of each kind
DeclPool == {SubDP("fn", <<>>, Ident("STRING"), Block(<<>>), TRUE), AclD("a", <<>>), BackendD("b", <<P1>>), DirectorD("d", "random", <<>>), TableD("t", None, <<>>, FALSE),
             SubD("vcl_recv", <<>>, None, Block(<<Esi>>)), PenaltyboxD("pb"), RatecounterD("rc"), ImportS("foo"), IncludeS("mod", FALSE)}
TripleCases == {<<"declorder", <<d1, d2, d3>>>> : d1 \in DeclPool, d2 \in DeclPool, d3 \in DeclPool}
               \cup {<<"declorder", <<>>>>}        \* the empty program (decorated: a file of comments only)

Cases == (IF Families \cap {"pairs", "triples", "atoms"} # {} THEN ExprCases ELSE {})
         \cup (IF "stmts" \in Families THEN StmtCases \cup PairCases \cup Seq4Cases ELSE {})
         \cup (IF "decls" \in Families THEN DeclCases \cup TripleCases ELSE {})

\* A case is the pair <<family, selector>> (small; a tuple, so that TLC orders cases by family first and never
\* compares selectors of different shapes); the program and the written expression are derived from it.
CaseE(c)   == Paren(c[2][1], c[2][2])                                   \* expression families: the written tree
CaseVcl(c) == CASE c[1] = "expr"      -> Vcl(<<ExprCtx(CaseE(c), c[2][3])>>)
                [] c[1] = "stmt"      -> InSub(<<c[2]>>)
                [] c[1] = "order"     -> InSub(<<c[2][1], c[2][2], c[2][1]>>)
                [] c[1] = "seq"       -> Vcl(<<SubD("vcl_recv", <<>>, None, Block(<<c[2][1], c[2][2]>>)),
                                               SubD("vcl_fetch", <<>>, None, Block(<<c[2][3], c[2][4], c[2][1]>>))>>)
                [] c[1] = "decl"      -> Vcl(<<c[2]>>)
                [] c[1] = "declorder" -> Vcl(c[2])
\* legality is a property of what is written (parentheses included): x (y) is a call, not a concatenation
LegalCase(c) == c[1] = "expr" => Legal(CaseE(c))

\* One state per case; two levels of fan-out (part = family / mode / context / top operator) so that TLC's workers
\* share the work of rendering, parsing and printing.
Key(c) == IF c[1] = "expr" THEN <<"expr", c[2][2], c[2][3], IF c[2][1].k = "infix" THEN c[2][1].op ELSE c[2][1].k>> ELSE <<c[1]>>
Parts == {Key(c) : c \in Cases}
NoCase == <<"none", <<>>>>
VARIABLES stage, part, case
vars == <<stage, part, case>>
Init == stage = 0 /\ part = <<>> /\ case = NoCase
Next == \/ stage = 0 /\ stage' = 1 /\ part' \in Parts /\ UNCHANGED case
        \/ stage = 1 /\ stage' = 2 /\ case' \in {c \in Cases : Key(c) = part /\ LegalCase(c)} /\ UNCHANGED part
Spec == Init /\ [][Next]_vars

PrattOK    == stage = 2 /\ case[1] = "expr" => PrattAgrees(CaseE(case))
DispatchOK == stage = 2 /\ case[1] \in {"stmt", "decl"} => DispatchAgrees(case[2], case[1] = "decl")
Texts(toks) == [i \in 1..Len(toks) |-> toks[i].s]
\* What the generated expressions must contain for the precedence table to be exercised (printed once, checked by
\* the orchestrator against the printed cases - a vacuity guard on the generator): for every operator p and every
\* operator c that needs no parentheses below it - on the left when c binds at least as tightly (left to right
\* grouping), on the right when c binds strictly tighter - the pair <<p, c, side>>, un-parenthesised, in each context.
OpName(o) == IF o = "juxt" THEN "+" ELSE o
RequiredPairs == {<<OpName(q[1]), OpName(q[2]), "left">> : q \in {r \in BinOps \X BinOps : DocPrec(r[2]) >= DocPrec(r[1])}}
                 \cup {<<OpName(q[1]), OpName(q[2]), "right">> : q \in {r \in BinOps \X BinOps : DocPrec(r[2]) > DocPrec(r[1])}}
EmitRequired == stage = 0 => PrintT(<<"BEHAVIOUR", ToJson([fam |-> "required-pairs", ctxs |-> Ctxs, pairs |-> RequiredPairs,
                                                           levels |-> [o \in {OpName(x) : x \in BinOps} |-> DocPrec(IF o = "+" THEN "juxt" ELSE o)]])>>)
Emit == stage = 2 => PrintT(<<"BEHAVIOUR", ToJson([fam |-> case[1], ctx |-> IF case[1] = "expr" THEN case[2][3] ELSE "",
                                                   toks |-> Texts(RenderStmt(CaseVcl(case))),
                                                   tree |-> StripStmt(CaseVcl(case)),
                                                   req |-> [pratt |-> PrattOK, dispatch |-> DispatchOK]])>>)
=============================================================================
