SPECIFICATION Spec
CONSTANTS
  Alphabet = "quick"
  MaxOps = 3
  Legacy = {}
INVARIANTS
  LawHolds
  SpellingLaw
  Emit
VIEW View
CHECK_DEADLOCK FALSE
