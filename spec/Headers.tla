------------------------------ MODULE Headers ------------------------------
(***************************************************************************)
(* C17 - HTTP header variables obey store laws.                            *)
(*                                                                         *)
(* One HTTP object (req / bereq / beresp / obj / resp - the object and the *)
(* scope are replay dimensions, the store is the same machine for all of   *)
(* them) holding header lines.  Header values are sequences of one-        *)
(* character strings so that the sub-field regular expression of           *)
(* interpreter/variable/field.go can be modelled character by character.   *)
(*                                                                         *)
(* MECHANISM layer (what the Go code does):                                *)
(*   lines  net/http.Header of the object: canonical name |-> header lines *)
(*   asg    headerKeyStore (interpreter/http/http.go): which names were    *)
(*          assigned - this is what separates "set and empty" from "not    *)
(*          set".  Keyed by the canonical name ("exact-keys" \in Legacy:   *)
(*          by the exact spelling, falco before the fix).                  *)
(*   MGet / MSet / MSetF / MUnset / MUnsetF / MAdd / MApp mirror           *)
(*   get/set/unset<Request|Response>HeaderValue, assignHeaderValue and     *)
(*   the Add arms of interpreter/variable/*.go; Find / GetField /          *)
(*   UnsetFieldStr / SetFieldStr mirror field.go (leftmost-first match of  *)
(*   the pattern, specialised to an alphabet without backslash in which a  *)
(*   double quote only arises from setField's own quoting).                *)
(*                                                                         *)
(* REQUIREMENT layer (what property C17 states), over *reads* only:        *)
(*   SpellingLaw   every spelling of a name reads the same (whole header   *)
(*                 and every sub-field, value and set/not-set alike);      *)
(*   Req(op)       for the transition by op, what each cell (spelling,     *)
(*                 whole | key) must read afterwards:                      *)
(*                   "=v"  exactly v        "!" not set                    *)
(*                   "~"   what it read before the operation (frame)       *)
(*                   "?"   the statement does not say                      *)
(*   LawHolds      the mechanism's reads satisfy Req on every transition.  *)
(*                                                                         *)
(* Mode "cover": TLC explores the store to depth MaxOps; the VIEW is (store *)
(* before the operation, operation, depth), so every (store, operation)    *)
(* transition is one distinct TLC state and is emitted once, with a        *)
(* shortest witness sequence and the read-back both layers predict after   *)
(* every operation.  Mode "seq" (small alphabets, cfg without VIEW): every *)
(* operation sequence of length MaxOps is its own state and is emitted -   *)
(* this reaches implementation states the abstract store does not          *)
(* distinguish (a shortest witness never goes through "set, then remove"). *)
(* Mode "walk": -simulate, one emission per random walk of MaxOps steps.   *)
(* Alphabet "multi" has five objects in ONE context: an operation on one   *)
(* object must leave every cell of every other object unchanged.           *)
(***************************************************************************)
EXTENDS Integers, Sequences, FiniteSets, TLC, Json

CONSTANTS Alphabet,     \* "quick" | "thorough" | "deep" | "small" | "small12" | "multi" | "special" | "flow" : which operation alphabet
          Mode,         \* "cover" | "seq" | "walk"
          MaxOps,       \* length of the operation sequences
          Legacy        \* subset of {"exact-keys", "empty-subfield", "add-unassigned", "unset-ws-truncates"}: falco before the
                        \* corresponding fix: commit (the defect then shows as a violated invariant)

----------------------------------------------------------------------------
(* alphabet *)
Str(s) == s                      \* values are sequences of one-character strings
Q  == "\""
NL == "\n"
BS == "\\"
CR == "\r"
WS == {" ", NL, CR}
Sep == ","

\* header names: spelling |-> canonical name (net/http.CanonicalHeaderKey)
Spellings == CASE Alphabet = "quick" -> <<"Foo", "fOO", "X-Bar">>
               [] Alphabet \in {"small", "small12", "multi", "special", "flow"} -> <<"Foo", "fOO">>
               [] OTHER -> <<"Foo", "fOO", "FOO", "X-Bar", "x-bar">>
\* the objects of one context ("_" = the object is a replay dimension)
Objs == IF Alphabet = "multi" THEN <<"req", "bereq", "beresp", "obj", "resp">> ELSE <<"_">>
ObjSet == {Objs[i] : i \in 1..Len(Objs)}
Canon(n) == IF n \in {"Foo", "fOO", "FOO", "foo"} THEN "Foo" ELSE "X-Bar"
Canons == {"Foo", "X-Bar"}
SpSet == {Spellings[i] : i \in 1..Len(Spellings)}
\* the spellings operations are written through (reads go through all of them)
WriteSp == CASE Alphabet = "quick" -> {"Foo", "fOO", "X-Bar"}
             [] Alphabet \in {"small", "small12", "multi", "special", "flow"} -> {"Foo", "fOO"}
             [] OTHER -> {"Foo", "fOO", "X-Bar", "x-bar"}
MainSp == {n \in WriteSp : Canon(n) = "Foo"}

\* sub-field keys; "A" is another spelling of "a" (the pattern of field.go is case-insensitive)
Keys == IF Alphabet \in {"small", "small12", "multi", "flow"} THEN << <<"a">>, <<"A">> >> ELSE IF Alphabet = "special" THEN << <<"a">>, <<"b">> >> ELSE << <<"a">>, <<"A">>, <<"b">>, <<"a", "b">> >>
Low(c) == IF c = "A" THEN "a" ELSE IF c = "B" THEN "b" ELSE c
LowS(q) == [i \in 1..Len(q) |-> Low(q[i])]
KeySet == {Keys[i] : i \in 1..Len(Keys)}
Whole == <<>>                    \* the "key" of the whole header

\* written values: kind "str" (a string), "ns" (a not-set STRING value handed to the variable API),
\* "null" (a VCL expression that evaluates to not set)
S(s) == [kind |-> "str", s |-> s]
NS   == [kind |-> "ns", s |-> <<>>]
NULL == [kind |-> "null", s |-> <<>>]
vX == S(<<"x">>)            vY == S(<<"y">>)           vE == S(<<>>)
vXsY == S(<<"x", " ", "y">>)
vXcY == S(<<"x", ",", "y">>)
vXeY == S(<<"x", "=", "y">>)
vXnY == S(<<"x", NL, "y">>)
vNx == S(<<NL, "x">>)      vXn == S(<<"x", NL>>)      vXrnY == S(<<"x", CR, NL, "y">>)
vDict == S(<<"a", "=", "x", ",", "b", "=", "y">>)            \* a whole header written as a dictionary
vDict3 == S(<<"a", "=", "x", ",", "b", "=", "y", ",", "a", "b", "=", "x">>)
vDictSp == S(<<"a", "=", "x", ",", " ", "a", "b", "=", Q, "x", " ", "y", Q>>)

\* values holding the characters the quoting rule of field.go treats specially, a double quote, and a backslash
\* before a letter, at the end, before a quote, doubled
Specials == {S(<<"x", BS, "y">>), S(<<"x", BS>>), S(<<"x", BS, Q, "y">>), S(<<"x", BS, BS, "y">>), S(<<"x", Q, "y">>),
             S(<<"x", ";", "y">>), S(<<"x", ":", "y">>), S(<<"(", "x", ")">>), S(<<"x", "/", "y">>), S(<<"x", "'", "y">>),
             S(<<"<", "x", ">">>), S(<<"x", "?">>), S(<<"x", "@", "y">>), S(<<"[", "x", "]">>), S(<<"{", "x", "}">>)}
WholeVals == CASE Alphabet = "quick" -> {vX, vXsY, vE, vXnY, NULL, vDict3}
               [] Alphabet = "thorough" -> {vX, vY, vE, vXsY, vXcY, vXeY, vXnY, vNx, vXn, vXrnY, NS, NULL, vDict, vDictSp, vDict3}
               [] OTHER -> {vX, vE, vXsY, NULL, vDict}
FieldVals == CASE Alphabet = "quick" -> {vX, vXsY, vE}
               [] Alphabet = "thorough" -> {vX, vY, vE, vXsY, vXcY, vXeY, vXnY, NS, NULL}
               [] OTHER -> {vX, vE, vXcY}
\* quick: the full value set on key "a" only
FieldValsFor(k) == IF Alphabet = "quick" /\ k # <<"a">> THEN {vX} ELSE FieldVals
AddVals   == CASE Alphabet = "quick" -> {vX}
               [] Alphabet = "thorough" -> {vX, vE, vXsY, NULL}
               [] OTHER -> {vX, vE}
\* (no += in random walks: the statement speaks of set / add / unset sequences; += stays in the covers)
AppVals   == CASE Mode = "walk" -> {}
               [] Alphabet = "quick" -> {vY, vXnY}
               [] Alphabet = "thorough" -> {vY, NULL, vXnY, vNx, vXn, vXrnY}
               [] OTHER -> {vY}

Op(o, n, k, v) == [op |-> o, n |-> n, k |-> k, v |-> v, o |-> "_"]
\* everything on the main header, a reduced set on the other one (it is there for the frame laws)
OpsOn(n) ==
  IF Canon(n) = "Foo"
  THEN {Op("set", n, Whole, v) : v \in WholeVals} \cup {Op("unset", n, Whole, NS)}
       \cup UNION {{Op("setf", n, k, v) : v \in FieldValsFor(k)} : k \in KeySet} \cup {Op("unsetf", n, k, NS) : k \in KeySet}
       \cup {Op("add", n, Whole, v) : v \in AddVals}
       \cup {Op("app", n, Whole, v) : v \in AppVals}
       \* (a newline in a sub-field value is a named deviation: the value is cut after quoting, which leaves an
       \* unbalanced quote behind - not combined with +=)
       \cup {Op("app", n, <<"a">>, v) : v \in {x \in AppVals : \A i \in 1..Len(x.s) : x.s[i] # NL}}
  ELSE {Op("set", n, Whole, vX), Op("set", n, Whole, vE), Op("unset", n, Whole, NS),
        Op("setf", n, <<"a">>, vX), Op("unsetf", n, <<"a">>, NS)}
SmallOps == {Op("set", n, Whole, v) : n \in WriteSp, v \in {vX, vE}} \cup {Op("unset", n, Whole, NS) : n \in WriteSp}
            \cup {Op("setf", n, <<"a">>, vX) : n \in WriteSp} \cup {Op("unsetf", n, <<"a">>, NS) : n \in WriteSp}
            \cup {Op("add", n, Whole, vX) : n \in WriteSp} \cup {Op("setf", "Foo", <<"A">>, vY), Op("unsetf", "fOO", <<"A">>, NS)}
MultiOps == {[x EXCEPT !.o = ob] : ob \in ObjSet,
               x \in {Op("set", "Foo", Whole, vX), Op("set", "fOO", Whole, vE), Op("unset", "Foo", Whole, NS),
                      Op("add", "Foo", Whole, vX), Op("setf", "Foo", <<"a">>, vX)}}
SpecialOps == {Op("setf", "Foo", <<"a">>, v) : v \in Specials \cup {vX}}
              \cup {Op("setf", "Foo", <<"b">>, vX), Op("unsetf", "fOO", <<"a">>, NS), Op("unsetf", "Foo", <<"b">>, NS),
                    Op("set", "Foo", Whole, vX), Op("unset", "Foo", Whole, NS), Op("app", "Foo", <<"a">>, vY)}
\* "flow": the history of req crosses restarts (a restart continues with the same request: nothing may change)
FlowOps == {Op("set", "Foo", Whole, vX), Op("set", "fOO", Whole, vE), Op("unset", "Foo", Whole, NS),
            Op("setf", "Foo", <<"a">>, vX), Op("unsetf", "fOO", <<"a">>, NS), Op("add", "Foo", Whole, vX),
            Op("restart", "Foo", Whole, NS)}
OpSet == CASE Alphabet = "small" -> SmallOps
           [] Alphabet = "flow" -> FlowOps
           [] Alphabet = "special" -> SpecialOps
           [] Alphabet = "small12" -> {x \in SmallOps : x.k # <<"A">>}
           [] Alphabet = "multi" -> MultiOps
           [] OTHER -> UNION {OpsOn(n) : n \in WriteSp}

----------------------------------------------------------------------------
(* strings *)
RECURSIVE RunIn(_, _, _), RunOut(_, _, _), Join(_), CutNL(_)
RunIn(s, i, C)  == IF i <= Len(s) /\ s[i] \in C THEN 1 + RunIn(s, i + 1, C) ELSE 0
RunOut(s, i, C) == IF i <= Len(s) /\ s[i] \notin C THEN 1 + RunOut(s, i + 1, C) ELSE 0
At(s, i) == IF i >= 1 /\ i <= Len(s) THEN s[i] ELSE "<eot>"
\* (?i): the key is matched case-insensitively
HasAt(s, i, lit) == i + Len(lit) - 1 <= Len(s) /\ LowS(SubSeq(s, i, i + Len(lit) - 1)) = LowS(lit)
Join(s) == IF s = <<>> THEN "" ELSE s[1] \o Join(Tail(s))
CutNL(s) == IF s = <<>> \/ s[1] = NL THEN <<>> ELSE <<s[1]>> \o CutNL(Tail(s))   \* strings.Cut(v, "\n")
Has(s, C) == \E i \in 1..Len(s) : s[i] \in C
Min(ns) == CHOOSE x \in ns : \A y \in ns : x <= y

\* read values
NotSet == [ns |-> TRUE, s |-> <<>>]
Val(s) == [ns |-> FALSE, s |-> s]

----------------------------------------------------------------------------
(* MECHANISM: interpreter/variable/field.go                                *)
(* pattern = (?i)(?:^|,)\s*KEY(?:(?:\s+)?=(?:\s+)?(Q|U))?(?:,|$|\s+)        *)
(*   Q = (?:"(?:\\"|[^"])+)?"      U = (?:[^,\s]+)?                          *)

\* Scanning (?:\\"|[^"])+ from index i: an escaped quote is preferred over a lone backslash, as many units as
\* possible.  Result: the index of the quote that ends the greedy scan (0 if the text ends first), preceded in
\* preference by nothing and followed by the escaped quotes met, latest first (giving one up makes it the closing quote).
RECURSIVE Scan(_, _, _)
Scan(s, i, esc) == IF i > Len(s) THEN <<0>> \o esc
                   ELSE IF s[i] = Q THEN <<i>> \o esc
                   ELSE IF s[i] = BS /\ At(s, i + 1) = Q THEN Scan(s, i + 2, <<i + 1>> \o esc)
                   ELSE Scan(s, i + 1, esc)
CloseCands(s, i) == SelectSeq(Scan(s, i, <<>>), LAMBDA x : x # 0)

\* (?:,|$|\s+) at index i: index after the terminator, 0 = no match
TermEnd(s, i) == IF At(s, i) = Sep THEN i + 1
                 ELSE IF i = Len(s) + 1 THEN i
                 ELSE IF At(s, i) \in WS THEN i + RunIn(s, i, WS)
                 ELSE 0

\* the optional "= value" group and the terminator, the key ending just before index p.
\* Leftmost-first: the group is tried first; once "=" is there the unquoted alternative
\* always succeeds, so the group is never given up.
AfterKey(s, p) ==
  LET p1 == p + RunIn(s, p, WS) IN
  IF At(s, p1) # "="
  THEN [ok |-> TermEnd(s, p) # 0, cap |-> <<>>, end |-> TermEnd(s, p)]
  ELSE LET p3   == p1 + 1 + RunIn(s, p1 + 1, WS)
           \* closing-quote candidates of (?:"(?:\\"|[^"])+)?" in the order a backtracking matcher tries them
           cq   == IF At(s, p3) = Q THEN CloseCands(s, p3 + 1) ELSE <<>>
           okq  == {i \in 1..Len(cq) : cq[i] > p3 + 1 /\ TermEnd(s, cq[i] + 1) # 0}
           q2   == At(s, p3) = Q /\ TermEnd(s, p3 + 1) # 0
           m    == RunOut(s, p3, {Sep} \cup WS)
       IN IF okq # {} THEN LET c == cq[Min(okq)] IN [ok |-> TRUE, cap |-> SubSeq(s, p3, c), end |-> TermEnd(s, c + 1)]
          ELSE IF q2 THEN [ok |-> TRUE, cap |-> <<Q>>, end |-> TermEnd(s, p3 + 1)]
          ELSE [ok |-> TRUE, cap |-> SubSeq(s, p3, p3 + m - 1), end |-> TermEnd(s, p3 + m)]

\* candidate c = 0: the "^" alternative (match starts at index 1); c = i > 0: the "," at index i
TryAt(s, key, c) ==
  LET st   == IF c = 0 THEN 1 ELSE c
      from == IF c = 0 THEN 1 ELSE c + 1
      p0   == from + RunIn(s, from, WS)
  IN IF HasAt(s, p0, key)
     THEN LET g == AfterKey(s, p0 + Len(key)) IN [ok |-> g.ok, start |-> st, end |-> g.end, cap |-> g.cap]
     ELSE [ok |-> FALSE, start |-> 0, end |-> 0, cap |-> <<>>]
Find(s, key) ==
  LET good == {c \in {0} \cup {i \in 1..Len(s) : s[i] = Sep} : TryAt(s, key, c).ok}
  IN IF good = {} THEN [ok |-> FALSE, start |-> 0, end |-> 0, cap |-> <<>>] ELSE TryAt(s, key, Min(good))

RECURSIVE Unesc(_), Esc(_)
Unesc(q) == IF q = <<>> THEN <<>>                                   \* strings.ReplaceAll(v, `\"`, `"`)
            ELSE IF q[1] = BS /\ At(q, 2) = Q THEN <<Q>> \o Unesc(SubSeq(q, 3, Len(q)))
            ELSE <<q[1]>> \o Unesc(Tail(q))
Esc(q) == IF q = <<>> THEN <<>> ELSE (IF q[1] = Q THEN <<BS, Q>> ELSE <<q[1]>>) \o Esc(Tail(q))

GetField(s, key) ==
  LET f == Find(s, key) IN
  IF ~f.ok THEN NotSet
  ELSE IF Len(f.cap) >= 2 /\ f.cap[1] = Q /\ f.cap[Len(f.cap)] = Q
       THEN Val(Unesc(SubSeq(f.cap, 2, Len(f.cap) - 1)))
       ELSE Val(f.cap)

UnsetFieldStr(s, key) ==
  LET f == Find(s, key) IN
  IF ~f.ok THEN s
  ELSE IF f.start = 1 THEN SubSeq(s, f.end, Len(s))                                     \* at the beginning
  ELSE IF s[f.end - 1] = Sep THEN SubSeq(s, 1, f.start - 1) \o SubSeq(s, f.end - 1, Len(s))  \* in the middle
  ELSE IF f.end <= Len(s) /\ "unset-ws-truncates" \notin Legacy                           \* in the middle, whitespace follows
       THEN SubSeq(s, 1, f.start - 1) \o <<Sep>> \o SubSeq(s, f.end, Len(s))
  ELSE SubSeq(s, 1, f.start - 1)                                                       \* at the end

\* characters that make setField quote the value (those of them that are in the alphabet)
QuoteChars == WS \cup {"=", Sep, "(", ")", BS, "@", "[", "]", "{", "}", "?", "/", ";", ":", "'", "<", ">"}
SetFieldStr(subj, key, ns, val) ==
  LET s1 == UnsetFieldStr(subj, key)
      sv == IF Has(val, QuoteChars) THEN CutNL(<<Q>> \o Esc(val) \o <<Q>>) ELSE val
      kv == IF ns \/ sv = <<>> THEN key ELSE key \o <<"=">> \o sv
  IN IF ns /\ s1 = <<>> /\ Len(key) = 1 THEN s1           \* the Fastly quirk field.go reproduces
     ELSE IF s1 = <<>> THEN kv ELSE s1 \o <<Sep>> \o kv

----------------------------------------------------------------------------
(* MECHANISM: interpreter/variable/header.go on (lines, asg)               *)
AK(n) == IF "exact-keys" \in Legacy THEN n ELSE Canon(n)
First(L, c) == IF L[c] = <<>> THEN <<>> ELSE L[c][1]          \* http.Header.Get

MGet(L, A, n, key) ==
  LET v == First(L, Canon(n)) IN
  IF v = <<>> THEN [ns |-> AK(n) \notin A \/ (key # Whole /\ "empty-subfield" \notin Legacy), s |-> <<>>]
  ELSE IF key = Whole THEN Val(v)
  ELSE GetField(v, key)

\* result of an operation: [L, A]
St(L, A) == [L |-> L, A |-> A]
MSet(L, A, n, ns, val) ==
  IF ns THEN St([L EXCEPT ![Canon(n)] = <<>>], A \ {AK(n)})
  ELSE St([L EXCEPT ![Canon(n)] = <<CutNL(val)>>], A \cup {AK(n)})
MSetF(L, A, n, key, ns, val) ==
  St([L EXCEPT ![Canon(n)] = <<SetFieldStr(First(L, Canon(n)), key, ns, val)>>], A \cup {AK(n)})
MUnset(L, A, n) == St([L EXCEPT ![Canon(n)] = <<>>], A \ {AK(n)})
MUnsetF(L, A, n, key) ==
  LET t == UnsetFieldStr(First(L, Canon(n)), key) IN
  St([L EXCEPT ![Canon(n)] = IF t = <<>> THEN <<>> ELSE <<t>>], A \ {AK(n)})
\* http.Header.Add (no cut at a newline) + Assign ("add-unassigned" \in Legacy: no Assign)
MAdd(L, A, n, val) == St([L EXCEPT ![Canon(n)] = Append(@, val)], IF "add-unassigned" \in Legacy THEN A ELSE A \cup {AK(n)})
\* value.String.String() of a not-set value
NullStr == <<"(", "n", "u", "l", "l", ")">>

\* a not-set right-hand side (API value or VCL expression alike) reaches the header code as a not-set STRING
Apply(L, A, o) ==
  LET ns == o.v.kind # "str" IN
  CASE o.op = "set"    -> MSet(L, A, o.n, ns, o.v.s)
    [] o.op = "setf"   -> MSetF(L, A, o.n, o.k, ns, o.v.s)
    [] o.op = "unset"  -> MUnset(L, A, o.n)
    [] o.op = "unsetf" -> MUnsetF(L, A, o.n, o.k)
    [] o.op = "restart" -> St(L, A)       \* interpreter.restart(): the same request object goes through vcl_recv again
    [] o.op = "add"    -> MAdd(L, A, o.n, IF ns THEN NullStr ELSE o.v.s)
    [] o.op = "app"    -> \* assignHeaderValue: read, += String() of the right-hand side, mark set, write back
         LET rhs == IF ~ns THEN o.v.s ELSE NullStr
             cur == MGet(L, A, o.n, o.k).s \o rhs IN
         IF o.k = Whole THEN MSet(L, A, o.n, FALSE, cur) ELSE MSetF(L, A, o.n, o.k, FALSE, cur)

----------------------------------------------------------------------------
(* state: one store (lines, asg) per object *)
VARIABLES lines, asg,      \* the stores: object |-> ...
          pl, pa,          \* the stores before the last operation
          last,            \* the last operation
          hist,            \* witness: the operations so far (hidden from the VIEW in mode "cover")
          done             \* mode "walk": the walk is complete (the one state a walk is emitted from)
vars == <<lines, asg, pl, pa, last, hist, done>>

Cells == {<<ob, n, k>> : ob \in ObjSet, n \in SpSet, k \in {Whole} \cup KeySet}
Read(LL, AA, c) == MGet(LL[c[1]], AA[c[1]], c[2], c[3])

----------------------------------------------------------------------------
(* REQUIREMENT                                                             *)
Eq(v) == [t |-> "eq", v |-> v]
SameV  == [t |-> "same", v |-> NotSet]
AnyV   == [t |-> "any", v |-> NotSet]
\* after += v the cell reads (what it read before, nothing if it was not set) followed by v, cut at the first newline:
\* the truncation is a law of the stored value, not of the operator "="
AppT(v) == [t |-> "app", v |-> Val(v)]

\* what the cell (ob, n, k) must read after operation o; before / bc = what the whole header (ob, n) / the cell
\* itself read before
Req(o, ob, n, k, before, bc) ==
  IF ob # o.o THEN SameV                                   \* every other object keeps its value
  ELSE IF Canon(n) # Canon(o.n) THEN SameV                 \* every other header keeps its value
  ELSE CASE o.op = "restart" -> SameV
         [] o.op = "set" ->
              IF k # Whole THEN AnyV
              ELSE IF o.v.kind = "str" THEN Eq(Val(CutNL(o.v.s))) ELSE Eq(NotSet)
         [] o.op = "unset" -> IF k = Whole THEN Eq(NotSet) ELSE AnyV
         [] o.op = "setf" ->
              IF k = Whole THEN AnyV
              ELSE IF LowS(k) # LowS(o.k) THEN SameV       \* every other sub-field keeps its value
              ELSE IF k # o.k THEN AnyV                    \* another spelling of the key: the statement does not say
              ELSE IF o.v.kind = "str" /\ ~Has(o.v.s, {NL}) THEN Eq(Val(o.v.s))   \* the spelling just written
              ELSE AnyV   \* named deviations: a not-set value (documented Fastly quirk), a newline in a sub-field
         [] o.op = "unsetf" ->
              IF k = Whole THEN AnyV ELSE IF LowS(k) # LowS(o.k) THEN SameV
              ELSE IF k # o.k THEN AnyV ELSE Eq(NotSet)
         [] o.op = "add" ->
              \* add on a header that reads as not set makes it read the value added; otherwise the
              \* statement does not say which line is read
              IF k = Whole /\ before.ns /\ o.v.kind = "str" /\ ~Has(o.v.s, {NL}) THEN Eq(Val(o.v.s)) ELSE AnyV
         [] o.op = "app" ->
              \* += on something that reads as not set writes the right-hand side (read-after-set with an
              \* empty current value); otherwise the result is C07's business
              LET plain == o.v.kind = "str" /\ ~Has(o.v.s, {NL}) IN
              IF o.k = Whole THEN (IF k = Whole /\ o.v.kind = "str" THEN AppT(o.v.s) ELSE AnyV)
              ELSE IF k = Whole THEN AnyV
              ELSE IF LowS(k) # LowS(o.k) THEN SameV
              ELSE IF k = o.k /\ bc.ns /\ plain THEN Eq(Val(o.v.s)) ELSE AnyV

Sat(tag, before, after) == CASE tag.t = "eq" -> after = tag.v
                             [] tag.t = "same" -> after = before
                             [] tag.t = "app" -> after = Val(CutNL(before.s \o tag.v.s))
                             [] OTHER -> TRUE

ReqOf(o, c) == Req(o, c[1], c[2], c[3], Read(pl, pa, <<c[1], c[2], Whole>>), Read(pl, pa, c))
LawHolds ==
  last.op # "none" => \A c \in Cells : Sat(ReqOf(last, c), Read(pl, pa, c), Read(lines, asg, c))

SpellingLaw ==
  \A c1, c2 \in Cells :
    (c1[1] = c2[1] /\ Canon(c1[2]) = Canon(c2[2]) /\ c1[3] = c2[3]) => Read(lines, asg, c1) = Read(lines, asg, c2)

----------------------------------------------------------------------------
(* emission *)
Enc(v) == IF v.ns THEN "!" ELSE "=" \o Join(v.s)
EncTag(t) == CASE t.t = "eq" -> Enc(t.v) [] t.t = "same" -> "~" [] t.t = "app" -> "+" \o Join(t.v.s) [] OTHER -> "?"
KeyName(k) == Join(k)
\* per object, per spelling (in Spellings order): the cells whole, then the keys in Keys order
KeyAt(j) == IF j = 1 THEN Whole ELSE Keys[j - 1]
MRow(LL, AA) == [oi \in 1..Len(Objs) |-> [i \in 1..Len(Spellings) |-> [j \in 1..Len(Keys) + 1 |->
                   Enc(Read(LL, AA, <<Objs[oi], Spellings[i], KeyAt(j)>>))]]]
RRow(o, LL, AA) == [oi \in 1..Len(Objs) |-> [i \in 1..Len(Spellings) |-> [j \in 1..Len(Keys) + 1 |->
                   EncTag(Req(o, Objs[oi], Spellings[i], KeyAt(j), Read(LL, AA, <<Objs[oi], Spellings[i], Whole>>),
                              Read(LL, AA, <<Objs[oi], Spellings[i], KeyAt(j)>>)))]]]
OpJson(o) == [op |-> o.op, o |-> o.o, n |-> o.n, k |-> KeyName(o.k), vk |-> o.v.kind, v |-> Join(o.v.s)]

L0 == [ob \in ObjSet |-> [c \in Canons |-> <<>>]]
A0 == [ob \in ObjSet |-> {}]

None == [op |-> "none", n |-> "", k |-> Whole, v |-> NS, o |-> "_"]
Init == /\ lines = L0 /\ asg = A0
        /\ pl = lines /\ pa = asg /\ last = None /\ hist = <<>> /\ done = FALSE

Do(o) == LET r == Apply(lines[o.o], asg[o.o], o)
             L2 == [lines EXCEPT ![o.o] = r.L]
             A2 == [asg EXCEPT ![o.o] = r.A] IN
         /\ lines' = L2 /\ asg' = A2 /\ pl' = lines /\ pa' = asg /\ last' = o
         /\ hist' = Append(hist, o)
         /\ UNCHANGED done

\* mode "walk": the single successor of a complete walk (in simulation mode TLC evaluates the invariants on
\* every candidate successor, so a walk is emitted from here only)
Finish == Mode = "walk" /\ ~done /\ Len(hist) = MaxOps /\ done' = TRUE /\ UNCHANGED <<lines, asg, pl, pa, last, hist>>

Restarts == Cardinality({i \in 1..Len(hist) : hist[i].op = "restart"})
Next == (Len(hist) < MaxOps /\ \E o \in OpSet : (o.op = "restart" => Restarts < 3) /\ Do(o)) \/ Finish
Spec == Init /\ [][Next]_vars

View == <<pl, pa, last, Len(hist), done>>

\* the emitted steps: the witness replayed from the empty stores, with both layers' read-back after each step
RECURSIVE Steps(_, _, _)
Steps(ops, LL, AA) ==
  IF ops = <<>> THEN <<>>
  ELSE LET o == Head(ops)
           r == Apply(LL[o.o], AA[o.o], o)
           L2 == [LL EXCEPT ![o.o] = r.L]
           A2 == [AA EXCEPT ![o.o] = r.A]
       IN <<[op |-> OpJson(o), m |-> MRow(L2, A2), r |-> RRow(o, LL, AA)]>> \o Steps(Tail(ops), L2, A2)
EmitNow == CASE Mode = "cover" -> Len(hist) > 0
             [] Mode = "seq" -> Len(hist) = MaxOps
             [] OTHER -> done
Emit == EmitNow =>
          PrintT(<<"BEHAVIOUR", ToJson([steps |-> Steps(hist, L0, A0),
                                        alpha |-> Alphabet,
                                        objs |-> Objs,
                                        sp |-> Spellings,
                                        canon |-> [i \in 1..Len(Spellings) |-> Canon(Spellings[i])],
                                        keys |-> [j \in 1..Len(Keys) |-> KeyName(Keys[j])]])>>)
=============================================================================
