SPECIFICATION Spec
CONSTANTS
  Alphabet = "small"
  Mode = "seq"
  MaxOps = 4
  Legacy = {}
INVARIANTS
  LawHolds
  SpellingLaw
  Emit
CHECK_DEADLOCK FALSE
