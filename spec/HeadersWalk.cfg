SPECIFICATION Spec
CONSTANTS
  Alphabet = "thorough"
  Mode = "walk"
  MaxOps = 8
  Legacy = {}
INVARIANTS
  Emit
CHECK_DEADLOCK FALSE
