SPECIFICATION Spec
CONSTANTS
  MaxStmts = 2
  MaxDepth = 2
  MaxSubs = 2
  MaxDir = 1
  RuleLists = {{}, {"r1"}, {"r1", "r2"}}
  Decl = TRUE
  Plugin = FALSE
  Switch = TRUE
  Odd = TRUE
  Sample = 0
INVARIANTS
  Exact
  Balanced
  NoLeak
  ScopedRestored
  EmitInv
CHECK_DEADLOCK FALSE
