------------------------------- MODULE Ignore -------------------------------
(***************************************************************************)
(* falco-ignore comments: what they must suppress (requirement, from       *)
(* docs/linter.md "Ignoring errors" and the property statement) and how    *)
(* linter/ignore.go + the parser's comment attachment do it (mechanism).   *)
(*                                                                         *)
(* A program is a sequence of subroutines; a subroutine body is a block; a *)
(* block is a sequence of statements; a statement is simple ("s"), an      *)
(* `if` with a consequence block ("if"), with an else block as well        *)
(* ("ifelse") or with an `else if (cond)` block ("ifelif").  Every simple statement and every `if` condition is a       *)
(* *site* that carries one diagnostic of each rule in Rules, so the set of *)
(* surviving (site, rule) pairs is fully informative.                      *)
(*                                                                         *)
(* The program is flattened to a sequence of source events (FlatProg); the *)
(* comment gaps are events too, so "the n-th event" is at the same time a  *)
(* source position (requirement layer: what is textually covered), the     *)
(* place a directive is written by the concretiser, and a step of the      *)
(* linter's walk (mechanism layer).                                        *)
(*                                                                         *)
(* TLC enumerates every program within the bounds with every sequence of   *)
(* at most MaxDir directives in the gaps, walks it with the mechanism      *)
(* actions, checks mechanism |= requirement (Exact, NoLeak, Balanced), and *)
(* prints one BEHAVIOUR per program: events, directives, the set the       *)
(* requirement says must survive, the set the mechanism will report.       *)
(***************************************************************************)
EXTENDS Naturals, Sequences, FiniteSets, TLC, Json, Randomization

CONSTANTS MaxStmts,    \* statements (simple + if) in the whole program
          MaxDepth,    \* nesting depth of if statements
          MaxSubs,     \* subroutines
          MaxDir,      \* directives
          RuleLists,   \* rule lists a directive may carry; {} = no list = every rule
          Decl,        \* TRUE: also sites whose diagnostic is raised by a LATER pass but located in the statement:
                       \* `declare local` (unused/variable, end of the subroutine) and an unused acl in front of the
                       \* first subroutine (unused/declaration, end of the run); they carry the never-named rule only
          Plugin,      \* TRUE: every simple statement and every if statement is annotated `@plugin: ...` and so carries a
                       \* diagnostic raised by a lint plugin (rule "r4": no rule name, like r3 only a directive without a
                       \* rule list covers it; it goes through the same filter as the built-in diagnostics)
          Switch,      \* TRUE: switch statements (one case holding statements) are generated too
          Odd,         \* TRUE: also the placements where a form covers nothing (falco-ignore on its own line, any
                       \* directive between `}` and `else` or at the end of the file); FALSE: leave them out
          Sample       \* 0: enumerate everything; n > 0: n random programs x n random directive sequences

Rules     == {"r1", "r2", "r3"} \cup (IF Plugin THEN {"r4"} ELSE {})
\* r3 is never named in a rule list (RuleLists \subseteq SUBSET {"r1", "r2"})
Types     == {"next", "this", "start", "end"}
\* "next" = falco-ignore-next-line, "this" = falco-ignore (trailing), "start"/"end" = falco-ignore-start/-end

(***************************************************************************)
(* Shape generator                                                         *)
(***************************************************************************)
S == [k |-> "s", cons |-> <<>>, alt |-> <<>>]
DeclStmt == [k |-> "d", cons |-> <<>>, alt |-> <<>>]      \* declare local var.x STRING;  (never read)

RECURSIVE StmtsOf(_, _), BlocksOf(_, _), ProgsOf(_, _)
\* statements with exactly n statements in them (itself included), if-depth <= d
StmtsOf(n, d) ==
  (IF n = 1 THEN (IF Decl THEN {S, DeclStmt} ELSE {S}) ELSE {}) \cup
  (IF d = 0 THEN {} ELSE
     { [k |-> kk, cons |-> c, alt |-> <<>>] : kk \in (IF Switch THEN {"if", "switch"} ELSE {"if"}), c \in BlocksOf(n - 1, d - 1) } \cup
     UNION { { [k |-> kk, cons |-> c, alt |-> a] : kk \in {"ifelse", "ifelif"}, c \in BlocksOf(i, d - 1), a \in BlocksOf(n - 1 - i, d - 1) }
             : i \in 0..(n - 1) })
\* blocks holding exactly n statements in total
BlocksOf(n, d) ==
  IF n = 0 THEN {<<>>}
  ELSE UNION { { <<s>> \o b : s \in StmtsOf(j, d), b \in BlocksOf(n - j, d) } : j \in 1..n }
\* programs of exactly s subroutines holding n statements in total
ProgsOf(n, s) ==
  IF s = 0 THEN (IF n = 0 THEN {<<>>} ELSE {})
  ELSE UNION { { <<b>> \o p : b \in BlocksOf(j, MaxDepth), p \in ProgsOf(n - j, s - 1) } : j \in 0..n }
Programs == UNION { ProgsOf(n, s) : n \in 1..MaxStmts, s \in 1..MaxSubs }

(***************************************************************************)
(* Flattening.  Ids are paths: subroutine i = <<i>> (also its body block), *)
(* j-th statement of block b = b \o <<j>>, consequence / else block of the *)
(* if statement s = s \o <<1>> / s \o <<2>>.                               *)
(* Events: sublead(gap) sub_open ... block_end(gap) sub_close              *)
(*         lead(gap) stmt trail(gap)                                       *)
(*         lead(gap) if_open ... block_end(gap) [else | elif ... block_end(gap)] if_close *)
(***************************************************************************)
RECURSIVE FlatStmts(_, _, _), FlatProgFrom(_, _, _)
FlatBlock(b, bid) == FlatStmts(b, bid, 1) \o << <<"block_end", bid>> >>
FlatStmts(b, bid, j) ==
  IF j > Len(b) THEN <<>>
  ELSE LET id == Append(bid, j)
           st == b[j]
       IN (CASE st.k = "s"  -> << <<"lead", id>>, <<"stmt", id>>, <<"trail", id>> >>
             [] st.k = "d"  -> << <<"lead", id>>, <<"decl", id>>, <<"trail", id>> >>
             [] st.k = "if" -> << <<"lead", id>>, <<"if_open", id>> >> \o FlatBlock(st.cons, Append(id, 1))
                               \o << <<"if_close", id>> >>
             \* switch (..) { case "a": statements break; }: the statements of a case are not a block
             \* (sw_end = the gap in front of `break;`)
             [] st.k = "switch" -> << <<"lead", id>>, <<"sw_open", id>> >> \o FlatStmts(st.cons, Append(id, 1), 1)
                               \o << <<"sw_end", id>>, <<"sw_close", id>> >>
             [] OTHER       -> << <<"lead", id>>, <<"if_open", id>> >> \o FlatBlock(st.cons, Append(id, 1))
                               \o << <<"prelse", id>>, <<(IF st.k = "ifelse" THEN "else" ELSE "elif"), id>> >>
                               \o FlatBlock(st.alt, Append(id, 2))
                               \o << <<"if_close", id>> >>)
          \o FlatStmts(b, bid, j + 1)
\* skip = index of a subroutine that the configuration excludes from linting (linter.ignore_subroutines; the CLI
\* always excludes vcl_pipe), 0 = none.  Its declaration is still a statement of the walk (its leading comments
\* are read), its body is not linted: it has no sites and no gaps inside.
FlatProgFrom(p, i, skip) ==
  IF i > Len(p) THEN << <<"eof", <<>>>> >>
  ELSE (IF i = skip
        THEN << <<"sublead", <<i>>>>, <<"sub_skip", <<i>>>> >>
        ELSE << <<"sublead", <<i>>>>, <<"sub_open", <<i>>>> >> \o FlatBlock(p[i], <<i>>) \o << <<"sub_close", <<i>>>> >>)
       \o FlatProgFrom(p, i + 1, skip)
\* rd: an unused acl declaration (with its own leading gap) in front of the first subroutine
FlatProg(p, skip, rd) == (IF rd THEN << <<"sublead", <<0>>>>, <<"rootdecl", <<0>>>> >> ELSE <<>>) \o FlatProgFrom(p, 1, skip)

Kind(e, n) == e[n][1]
Id(e, n)   == e[n][2]
IsPrefix(a, b) == Len(a) <= Len(b) /\ SubSeq(b, 1, Len(a)) = a
Sites(e)   == { n \in DOMAIN e : Kind(e, n) \in {"stmt", "if_open", "elif", "decl", "rootdecl"} }
\* rules of the diagnostics a site carries
\* (the plugin annotation is a leading comment of a statement: an `else if` condition is not a statement of its own)
SiteRules(e, n) == IF Kind(e, n) \in {"decl", "rootdecl"} THEN {"r3"}
                   ELSE IF Kind(e, n) = "elif" THEN Rules \ {"r4"} ELSE Rules
AllPairs(e) == { p \in Sites(e) \X Rules : p[2] \in SiteRules(e, p[1]) }
OwnLine(e, n) == Kind(e, n) \in {"lead", "sublead", "block_end", "sw_end", "prelse", "eof"}
GapOf(e, kind, id) == CHOOSE g \in DOMAIN e : Kind(e, g) = kind /\ Id(e, g) = id

(***************************************************************************)
(* Directives: [at |-> gap (event index), type, rules].  A program's       *)
(* directives are a sequence sorted by `at`; several directives may share  *)
(* an own-line gap (one comment line each, in sequence order).             *)
(* next / start / end are written on their own line; `this` trails a       *)
(* simple statement on its line (at most one per statement).               *)
(***************************************************************************)
LegalDirs(e) ==
  { [at |-> g, type |-> t, rules |-> rl] :
      g \in { n \in DOMAIN e : OwnLine(e, n) /\ (Odd \/ Kind(e, n) \notin {"prelse", "eof"}) },
      t \in (IF Odd THEN Types ELSE Types \ {"this"}), rl \in RuleLists }
  \cup { [at |-> g, type |-> "this", rules |-> rl] : g \in { n \in DOMAIN e : Kind(e, n) = "trail" }, rl \in RuleLists }
RECURSIVE DirSeqsFrom(_, _, _, _)
DirSeqsFrom(e, L, lo, k) ==
  {<<>>} \cup
  (IF k = 0 THEN {} ELSE
     UNION { { <<d>> \o rest : rest \in DirSeqsFrom(e, L, IF Kind(e, d.at) = "trail" THEN d.at + 1 ELSE d.at, k - 1) }
             : d \in { x \in L : x.at >= lo } })
DirSeqs(e) == DirSeqsFrom(e, LegalDirs(e), 1, MaxDir)

(***************************************************************************)
(* REQUIREMENT (docs/linter.md, property C12).                             *)
(*  R1 next-line in front of a statement (or subroutine) covers every      *)
(*     diagnostic located in that statement, nested statements included;   *)
(*  R2 a trailing falco-ignore covers its own statement;                   *)
(*  R3 start ... end covers what is written between them; start with a     *)
(*     rule list adds those rules, end with a rule list re-enables those   *)
(*     rules, end without one re-enables everything (docs: "falco-ignore-  *)
(*     end without rule names specified re-enables all rules");            *)
(*  R4 a rule list restricts the directive to those rules;                 *)
(*  R5 everything else is reported.                                        *)
(*  R6 a directive written where its form covers nothing covers nothing:   *)
(*     next-line as the last comment of a block, between `}` and `else`,   *)
(*     at the end of the file; falco-ignore on a line of its own.          *)
(* Where the documentation says nothing the requirement is *silent* and    *)
(* only the mechanism prediction is compared (as drift):                   *)
(*   - a start that is never closed (the statement speaks of pairs),       *)
(*   - `end <rules>` while an unrestricted start is open,                  *)
(*   - start / end between `}` and `else` or at the end of the file (the   *)
(*     documentation attaches directives to statements).                   *)
(***************************************************************************)
Match(d, r) == d.rules = {} \/ r \in d.rules
NextCovers(e, d, n) == d.type = "next" /\ Kind(e, d.at) \in {"lead", "sublead"} /\ IsPrefix(Id(e, d.at), Id(e, n))
ThisCovers(e, d, n) == d.type = "this" /\ Kind(e, d.at) = "trail" /\ Kind(e, n) \in {"stmt", "decl"} /\ Id(e, d.at) = Id(e, n)

RangeStep(s, d) ==
  CASE d.type = "start" -> [on      |-> IF d.rules = {} THEN Rules ELSE s.on \cup d.rules,
                            allopen |-> s.allopen \/ d.rules = {},
                            amb     |-> s.amb]
    [] d.type = "end"   -> [on      |-> IF d.rules = {} THEN {} ELSE s.on \ d.rules,
                            allopen |-> IF d.rules = {} THEN FALSE ELSE s.allopen,
                            amb     |-> s.amb \/ (d.rules # {} /\ s.allopen)]
    [] OTHER            -> s
RECURSIVE RangeFold(_, _, _, _)
RangeFold(ds, i, n, s) == IF i > Len(ds) \/ ds[i].at >= n THEN s ELSE RangeFold(ds, i + 1, n, RangeStep(s, ds[i]))
\* range state in front of event n (directives in gaps before n, in source order)
RangeBefore(ds, n) == RangeFold(ds, 1, n, [on |-> {}, allopen |-> FALSE, amb |-> FALSE])

Covered(e, ds) ==
  { p \in AllPairs(e) :
      \/ \E i \in DOMAIN ds : Match(ds[i], p[2]) /\ (NextCovers(e, ds[i], p[1]) \/ ThisCovers(e, ds[i], p[1]))
      \/ p[2] \in RangeBefore(ds, p[1]).on }
Required(e, ds) == AllPairs(e) \ Covered(e, ds)
Silent(e, ds) ==
  LET fin == RangeBefore(ds, Len(e) + 1) IN
  \/ fin.amb \/ fin.on # {}
  \/ \E i \in DOMAIN ds : ds[i].type \in {"start", "end"} /\ Kind(e, ds[i].at) \in {"prelse", "eof"}

(***************************************************************************)
(* MECHANISM.                                                              *)
(*  (a) parser: a comment on its own line in front of a statement or `sub` *)
(*      is in the Leading list of that node; a comment after `;` on the    *)
(*      statement's line is in its Trailing list; a comment on its own     *)
(*      line in front of `}` is in the Infix list of the block             *)
(*      (ParseBlockStatement: SwapLeadingInfix).                           *)
(*  (b) linter/ignore.go: three sets (next-line, this-line, range), each   *)
(*      an `all` flag plus a rule set; SetupStatement / TeardownStatement  *)
(*      around every statement and declaration, SetupBlockStatement /      *)
(*      TeardownBlockStatement around every block; Linter.Error drops a *)
(*      diagnostic iff IsEnable(rule).                                     *)
(*      Setup saves the next-line and this-line sets and Teardown restores *)
(*      them (stack), so a nested directive cannot clear an outer one;     *)
(*      adding named rules keeps `all`; TeardownBlockStatement reads the   *)
(*      block's Infix comments for start / end.                            *)
(***************************************************************************)
EmptySet == [all |-> FALSE, rules |-> {}]
Ign(s, rl)   == IF rl = {} THEN [all |-> TRUE, rules |-> {}] ELSE [all |-> s.all, rules |-> s.rules \cup rl]
Unign(s, rl) == IF rl = {} THEN EmptySet ELSE [all |-> FALSE, rules |-> s.rules \ rl]
DirsAt(ds, g) == SelectSeq(ds, LAMBDA d : d.at = g)

\* ignore state: [nx, th, rg, stack]
RECURSIVE FoldLeading(_, _, _), FoldTrailing(_, _, _), FoldInfix(_, _, _)
FoldLeading(ig, D, i) ==       \* SetupStatement / SetupBlockStatement, loop over meta.Leading
  IF i > Len(D) THEN ig
  ELSE FoldLeading(CASE D[i].type = "next"  -> [ig EXCEPT !.nx = Ign(ig.nx, D[i].rules)]
                     [] D[i].type = "start" -> [ig EXCEPT !.rg = Ign(ig.rg, D[i].rules)]
                     [] D[i].type = "end"   -> [ig EXCEPT !.rg = Unign(ig.rg, D[i].rules)]
                     [] OTHER               -> ig, D, i + 1)
FoldTrailing(ig, D, i) ==      \* SetupStatement, loop over meta.Trailing
  IF i > Len(D) THEN ig
  ELSE FoldTrailing(IF D[i].type = "this" THEN [ig EXCEPT !.th = Ign(ig.th, D[i].rules)] ELSE ig, D, i + 1)
FoldInfix(ig, D, i) ==         \* TeardownBlockStatement, loop over meta.Infix
  IF i > Len(D) THEN ig
  ELSE FoldInfix(CASE D[i].type = "start" -> [ig EXCEPT !.rg = Ign(ig.rg, D[i].rules)]
                   [] D[i].type = "end"   -> [ig EXCEPT !.rg = Unign(ig.rg, D[i].rules)]
                   [] OTHER               -> ig, D, i + 1)
Push(ig) == [ig EXCEPT !.stack = Append(ig.stack, [nx |-> ig.nx, th |-> ig.th])]
Pop(ig)  == LET f == ig.stack[Len(ig.stack)] IN
            [ig EXCEPT !.nx = f.nx, !.th = f.th, !.stack = SubSeq(ig.stack, 1, Len(ig.stack) - 1)]
SetupStatement(ig, leading, trailing) == FoldTrailing(FoldLeading(Push(ig), leading, 1), trailing, 1)
TeardownStatement(ig)                 == Pop(ig)
SetupBlock(ig, leading)               == FoldLeading(Push(ig), leading, 1)
TeardownBlock(ig, infix)              == Pop(FoldInfix(ig, infix, 1))
IsEnable(ig, r) == ig.nx.all \/ ig.th.all \/ ig.rg.all \/ r \in ig.nx.rules \/ r \in ig.th.rules \/ r \in ig.rg.rules
Survivors(ig) == { r \in Rules : ~IsEnable(ig, r) }

VARIABLES ev, dirs,     \* the program (constant along a behaviour)
          req, silent,  \* requirement layer evaluated once: pairs that must survive; requirement silent?
          pc,           \* next event of the walk
          ig,           \* the linter's ignore state
          rep,          \* (site, rule) reported so far
          pend          \* unused acl sites whose report is still to come (raised by the pass after the walk)
vars == <<ev, dirs, req, silent, pc, ig, rep, pend>>

\* comment gaps are not steps of the walk: pc always rests on the next node event
IsGap(n) == Kind(ev, n) \in {"sublead", "lead", "block_end", "sw_end", "prelse", "eof"}
RECURSIVE SkipGaps(_)
SkipGaps(n) == IF n <= Len(ev) /\ IsGap(n) THEN SkipGaps(n + 1) ELSE n

Ig0 == [nx |-> EmptySet, th |-> EmptySet, rg |-> EmptySet, stack |-> <<>>]

SortByAt(D) == LET RECURSIVE F(_) F(X) == IF X = {} THEN <<>> ELSE
                     LET m == CHOOSE x \in X : \A y \in X : x.at <= y.at IN <<m>> \o F(X \ {m})
               IN F(D)
OneThisPerGap(D) == \A x, y \in D : (Kind(ev, x.at) = "trail" /\ x.at = y.at) => x = y
\* The program is chosen in the initial state, its directives by the first step (Place): TLC computes
\* the successors of different programs on different workers.
Init ==
  /\ \E p \in (IF Sample = 0 THEN Programs ELSE RandomSubset(Sample, Programs)) :
       \E skip \in {0} \cup { i \in DOMAIN p : p[i] = <<>> } : \E rd \in (IF Decl THEN BOOLEAN ELSE {FALSE}) :
          ev = FlatProg(p, skip, rd)
  /\ dirs = <<>> /\ req = {} /\ silent = FALSE
  /\ pc = 0
  /\ ig = Ig0
  /\ rep = {} /\ pend = {}

Placements ==
  IF Sample = 0 THEN DirSeqs(ev)
  ELSE { SortByAt(D) : D \in { X \in { RandomSubset(1 + (i % MaxDir), LegalDirs(ev)) : i \in 1..Sample } : OneThisPerGap(X) } }
Place ==
  /\ pc = 0
  /\ \E ds \in Placements :
       /\ dirs' = ds
       /\ req' = Required(ev, ds)
       /\ silent' = Silent(ev, ds)
  /\ pc' = SkipGaps(1)
  /\ UNCHANGED <<ev, ig, rep, pend>>

Leading(kind, id) == DirsAt(dirs, GapOf(ev, kind, id))
Report(g) == rep' = rep \cup { <<pc, r>> : r \in Survivors(g) \cap SiteRules(ev, pc) } /\ UNCHANGED pend
\* a declaration that is not used: if its rule is ignored at this point it is marked as used (never reported),
\* otherwise the report is raised by the pass that runs later - and goes through the filter as it is THEN
Defer(g) == pend' = (IF "r3" \in Survivors(g) THEN pend \cup {pc} ELSE pend) /\ UNCHANGED rep

\* lintStatement(sub declaration): SetupStatement, then lintBlockStatement's SetupBlockStatement (`{` has no comments)
SubOpen == /\ Kind(ev, pc) = "sub_open"
           /\ ig' = SetupBlock(SetupStatement(ig, Leading("sublead", Id(ev, pc)), <<>>), <<>>)
           /\ UNCHANGED <<rep, pend>>
\* a subroutine excluded by the configuration: lintStatement still sets up and tears down around it
SubSkip == /\ Kind(ev, pc) = "sub_skip"
           /\ ig' = TeardownStatement(SetupStatement(ig, Leading("sublead", Id(ev, pc)), <<>>))
           /\ UNCHANGED <<rep, pend>>
SubClose == /\ Kind(ev, pc) = "sub_close"
            /\ ig' = TeardownStatement(TeardownBlock(ig, Leading("block_end", Id(ev, pc))))
            /\ UNCHANGED <<rep, pend>>
\* simple statement: SetupStatement (leading and trailing comments), diagnostics through Linter.Error
\* (a declare statement is such a statement: its unused-variable report is raised when the subroutine has been
\* linted, but whether it is made is decided here - lintDeclareStatement marks the variable as used if the rule is
\* ignored at this point, and lintUnusedVariables does not ask the filter again)
Stmt == /\ Kind(ev, pc) \in {"stmt", "decl"}
        /\ LET g == SetupStatement(ig, Leading("lead", Id(ev, pc)), Leading("trail", Id(ev, pc))) IN
           ig' = g /\ Report(g)
Trail == /\ Kind(ev, pc) = "trail"
         /\ ig' = TeardownStatement(ig) /\ UNCHANGED <<rep, pend>>
\* if: SetupStatement (its Trailing list is empty: the block took it), condition linted, SetupBlockStatement(consequence)
IfOpen == /\ Kind(ev, pc) = "if_open"
          /\ LET g == SetupStatement(ig, Leading("lead", Id(ev, pc)), <<>>) IN
             ig' = SetupBlock(g, <<>>) /\ Report(g)
\* switch: SetupStatement around the whole statement; lintSwitchStatement sends every statement of a case
\* through lintStatement (simple statements and ifs are walked as everywhere else)
SwOpen == /\ Kind(ev, pc) = "sw_open"
          /\ ig' = SetupStatement(ig, Leading("lead", Id(ev, pc)), <<>>) /\ UNCHANGED <<rep, pend>>
\* break: nothing to lint, setup and teardown on its leading comments; then the switch statement is left
SwClose == /\ Kind(ev, pc) = "sw_close"
           /\ ig' = TeardownStatement(TeardownStatement(SetupStatement(ig, Leading("sw_end", Id(ev, pc)), <<>>)))
           /\ UNCHANGED <<rep, pend>>
\* an acl declaration at root level: lintAclDeclaration marks it used if unused/declaration is ignored here
RootDecl == /\ Kind(ev, pc) = "rootdecl"
            /\ LET g == SetupStatement(ig, Leading("sublead", Id(ev, pc)), <<>>) IN
               ig' = TeardownStatement(g) /\ Defer(g)
Else == /\ Kind(ev, pc) = "else"
        /\ ig' = SetupBlock(TeardownBlock(ig, Leading("block_end", Append(Id(ev, pc), 1))), <<>>)
        /\ UNCHANGED <<rep, pend>>
\* `else if (cond)`: the consequence block is left, the second condition is linted (no setup of its own: the
\* else-if node is not a statement of the walk), then its block is entered
Elif == /\ Kind(ev, pc) = "elif"
        /\ LET g == TeardownBlock(ig, Leading("block_end", Append(Id(ev, pc), 1))) IN
           ig' = SetupBlock(g, <<>>) /\ Report(g)
IfClose == /\ Kind(ev, pc) = "if_close"
           /\ LET last == IF \E g \in DOMAIN ev : Kind(ev, g) \in {"else", "elif"} /\ Id(ev, g) = Id(ev, pc) THEN 2 ELSE 1 IN
              ig' = TeardownStatement(TeardownBlock(ig, Leading("block_end", Append(Id(ev, pc), last))))
           /\ UNCHANGED <<rep, pend>>

Walk == /\ pc >= 1 /\ pc <= Len(ev)
        /\ (RootDecl \/ SubOpen \/ SubSkip \/ SubClose \/ SwOpen \/ SwClose \/ Stmt \/ Trail \/ IfOpen \/ Else \/ Elif \/ IfClose)
        /\ pc' = SkipGaps(pc + 1)
        /\ UNCHANGED <<ev, dirs, req, silent>>
\* Linter.Lint, after the walk: lintUnusedAcls ... report what is still pending, through the filter as it is now
PostPass == /\ pc = Len(ev) + 1
            /\ rep' = rep \cup (IF "r3" \in Survivors(ig) THEN { <<n, "r3">> : n \in pend } ELSE {})
            /\ pend' = {} /\ pc' = Len(ev) + 2
            /\ UNCHANGED <<ev, dirs, req, silent, ig>>
Next == Place \/ Walk \/ PostPass
Spec == Init /\ [][Next]_vars

Done == pc = Len(ev) + 2
Visited == { p \in AllPairs(ev) : p[1] < pc }
\* A diagnostic raised after the walk (the unused-declaration passes) and located in front of the first
\* subroutine: the requirement wants it reported (nothing covers it); the mechanism reports it unless
\* some set still has its `all` flag (its rule is never named in a rule list).
EofReq  == TRUE
EofMech == ~(ig.nx.all \/ ig.th.all \/ ig.rg.all)

(***************************************************************************)
(* mechanism |= requirement                                                *)
(***************************************************************************)
\* every diagnostic reported so far is one the requirement wants, and none is missing
\* (a pending report counts as made: where the requirement is not silent, no directive outlives its statement or
\* range, so the later pass finds the filter open)
Exact == ~silent => rep \cup { <<n, "r3">> : n \in pend } = req \cap Visited
\* setup and teardown calls are paired
Balanced == Done => ig.stack = <<>>
\* nothing outlives the walk: no directive's effect leaks past the end of the file
NoLeak == (Done /\ ~silent) => (ig.nx = EmptySet /\ ig.th = EmptySet /\ Survivors(ig) = Rules /\ EofMech = EofReq)
\* statement-scoped sets are always restored when a statement or block is left
ScopedRestored == Done => (ig.nx = EmptySet /\ ig.th = EmptySet)

(***************************************************************************)
(* behaviour emission                                                      *)
(***************************************************************************)
SetToSeq(X) == LET RECURSIVE F(_) F(Y) == IF Y = {} THEN <<>> ELSE LET y == CHOOSE z \in Y : TRUE IN <<y>> \o F(Y \ {y}) IN F(X)
Pairs(P) == SetToSeq({ [site |-> p[1], rule |-> p[2]] : p \in P })
DirJ(d) == [at |-> d.at, type |-> d.type, rules |-> SetToSeq(d.rules)]
Behaviour == [ev |-> ev, dirs |-> [i \in DOMAIN dirs |-> DirJ(dirs[i])],
              all |-> Pairs(AllPairs(ev)),
              req |-> Pairs(req), mech |-> Pairs(rep), silent |-> silent,
              eofreq |-> EofReq, eofmech |-> EofMech]
EmitInv == Done => PrintT(<<"BEHAVIOUR", ToJson(Behaviour)>>)
=============================================================================
