SPECIFICATION Spec
CONSTANTS
  Guard = TRUE
  MaxEdges = 12
INVARIANTS
  Bounded
  CycleReported
  MissingReported
  EmitInv
PROPERTIES
  Terminates
CHECK_DEADLOCK FALSE
