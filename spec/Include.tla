------------------------------ MODULE Include ------------------------------
(***************************************************************************)
(* Include expansion of the linter (linter/linter.go                       *)
(* resolveIncludeStatements / resolveFileInclusion) over every include     *)
(* graph on a small set of module files.                                   *)
(*                                                                         *)
(* A graph gives, for each module file, the set of targets it includes;    *)
(* "x" is a module that does not exist.  All include statements of a graph *)
(* are written either at root level (modules are full VCL files) or inside *)
(* a subroutine (modules are statement lists).                             *)
(*                                                                         *)
(* A third placement, "block", nests every include statement in an         *)
(* if / else block - in vcl_recv and inside the included modules.  Those   *)
(* blocks are linted (and their include statements met) after the module   *)
(* has been loaded; the linter resolves them while the module is still on  *)
(* the chain (resolveNestedIncludeStatements), so the stack machine below  *)
(* describes this placement too.  (Before that repair the chain had been   *)
(* popped by then and `if (..) { include "itself"; }` recursed for ever.)  *)
(*                                                                         *)
(* Requirement (property C11): expansion terminates for every graph -      *)
(* missing, self-including and mutually including modules included - and   *)
(* ends in a report, never in unbounded recursion.                         *)
(* Mechanism: the recursive expansion as a stack machine.  The linter keeps *)
(* the chain of modules being included (seeded with the main file) and     *)
(* reports include/module-load-failed on the statement that would close a  *)
(* cycle; without that chain (`Guard = FALSE`, the code before the fix)    *)
(* the stack grows without bound and TLC reports Bounded / Terminates.     *)
(***************************************************************************)
EXTENDS Naturals, Sequences, FiniteSets, TLC, Json

CONSTANTS Guard,      \* TRUE: chain check as in the code; FALSE: the unguarded recursion
          MaxEdges    \* only graphs with at most this many include statements

Modules == {"main", "a", "b"}
Targets == Modules \cup {"x"}
Order == <<"main", "a", "b", "x">>          \* order of the include statements inside a file
Todo(S) == SelectSeq(Order, LAMBDA t : t \in S)
EdgeCount(g) == Cardinality(g["main"]) + Cardinality(g["a"]) + Cardinality(g["b"])
Graphs == { g \in [Modules -> SUBSET Targets] : EdgeCount(g) <= MaxEdges }

VARIABLES inc, place,   \* the graph and the placement ("root" | "sub" | "block"): constant along a behaviour
          stack,        \* frames [mod, todo]: files being expanded, innermost last
          missing,      \* include/module-load-failed: file not found
          cyclic,       \* include/module-load-failed: module included recursively
          loads,        \* how often each module file was loaded and parsed
          done
vars == <<inc, place, stack, missing, cyclic, loads, done>>

Chain == { stack[i].mod : i \in DOMAIN stack }

Init ==
  /\ inc \in Graphs /\ place \in {"root", "sub", "block"}
  /\ stack = << [mod |-> "main", todo |-> Todo(inc["main"])] >>
  /\ missing = 0 /\ cyclic = 0 /\ loads = [m \in Modules |-> 0] /\ done = FALSE

Top == stack[Len(stack)]
SetTop(f) == [stack EXCEPT ![Len(stack)] = f]

\* resolveIncludeStatements: next include statement of the innermost file
Step ==
  /\ ~done /\ stack # <<>> /\ Top.todo # <<>>
  /\ LET t == Head(Top.todo)
         rest == [Top EXCEPT !.todo = Tail(@)]
     IN CASE t = "x" ->                       \* Resolver.Resolve fails
               /\ missing' = missing + 1 /\ stack' = SetTop(rest) /\ UNCHANGED <<cyclic, loads>>
          [] t # "x" /\ Guard /\ t \in Chain ->   \* the module is being included already
               /\ cyclic' = cyclic + 1 /\ stack' = SetTop(rest) /\ UNCHANGED <<missing, loads>>
          [] OTHER ->                         \* loadVCL / loadSnippetVCL, then recurse into its statements
               /\ loads' = [loads EXCEPT ![t] = @ + 1]
               /\ stack' = Append(SetTop(rest), [mod |-> t, todo |-> Todo(inc[t])])
               /\ UNCHANGED <<missing, cyclic>>
  /\ UNCHANGED <<inc, place, done>>
\* all include statements of the innermost file resolved: return to the including file
Return ==
  /\ ~done /\ stack # <<>> /\ Top.todo = <<>>
  /\ stack' = SubSeq(stack, 1, Len(stack) - 1)
  /\ UNCHANGED <<inc, place, missing, cyclic, loads, done>>
Finish ==
  /\ ~done /\ stack = <<>> /\ done' = TRUE
  /\ UNCHANGED <<inc, place, stack, missing, cyclic, loads>>
Next == Step \/ Return \/ Finish
Spec == Init /\ [][Next]_vars /\ WF_vars(Next)

(***************************************************************************)
(* requirement                                                             *)
(***************************************************************************)
Terminates == <>done
\* no file is on the include stack twice, so the recursion depth is bounded by the number of files
Bounded == Len(stack) <= Cardinality(Modules) /\ \A i, j \in DOMAIN stack : stack[i].mod = stack[j].mod => i = j
\* a cycle reachable from main is always reported, an acyclic graph never
RECURSIVE Reach(_, _)
Reach(S, n) == IF n = 0 THEN S ELSE Reach(S \cup UNION { inc[m] \cap Modules : m \in S }, n - 1)
Reachable == Reach({"main"}, 3)
CycleReachable == \E m \in Reachable : \E t \in inc[m] \cap Modules : m \in Reach({t}, 3)
CycleReported == done => ((cyclic > 0) <=> CycleReachable)
MissingReported == done => ((missing > 0) <=> \E m \in Reachable : "x" \in inc[m])

SetToSeq(X) == LET RECURSIVE F(_) F(Y) == IF Y = {} THEN <<>> ELSE LET y == CHOOSE z \in Y : TRUE IN <<y>> \o F(Y \ {y}) IN F(X)
Behaviour == [kind |-> "include",
              inc |-> [m \in Modules |-> Todo(inc[m])], place |-> place,
              terminates |-> TRUE,
              missing |-> missing, cyclic |-> cyclic, loads |-> loads,
              \* every module file declares one subroutine: each further load of it is a duplicate declaration
              dups |-> (IF loads["a"] > 1 THEN loads["a"] - 1 ELSE 0) + (IF loads["b"] > 1 THEN loads["b"] - 1 ELSE 0),
              cycleReachable |-> CycleReachable]
EmitInv == done => PrintT(<<"BEHAVIOUR", ToJson(Behaviour)>>)
=============================================================================
