SPECIFICATION Spec
CONSTANTS
  MaxLen = 3
  PostEof = 3
  Chunks <- QuickChunks
INVARIANTS
  Bounded
  AllTyped
  AllLocated
  AllAtLexemeStart
  InOrder
  Emit
PROPERTIES
  Progress
  LexTerminates
CHECK_DEADLOCK FALSE
