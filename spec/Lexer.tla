------------------------------- MODULE Lexer -------------------------------
(***************************************************************************)
(* Bounded model of lexing (property C01): every source made of at most     *)
(* MaxLen chunks of the alphabet Chunks is built, then lexed token by token *)
(* by LexerCore!NextToken until the first EOF, then PostEof more tokens are *)
(* pulled (a parser reads past the end).                                    *)
(*                                                                         *)
(* Checked by TLC: Progress (every NextToken consumes input, empties the    *)
(* queue of pushed tokens, or returns EOF), LexTerminates (liveness under   *)
(* weak fairness), AllLocated / AllAtLexemeStart (requirement layer of      *)
(* LexerCore on every emitted token).  The finished runs are printed as     *)
(* BEHAVIOUR lines and replayed against the real lexer.                     *)
(***************************************************************************)
EXTENDS LexerCore, Json

CONSTANTS Chunks, MaxLen, PostEof
VARIABLES chunks,   \* the source, as the chunks it was built from
          phase,    \* "build" | "lex" | "post" | "done"
          ls,       \* lexer state
          out,      \* tokens returned so far
          post      \* tokens still to pull after the first EOF
vars == <<input, chunks, phase, ls, out, post>>
MaxTokens == 2 * N + 1 + PostEof

Init == /\ chunks = <<>> /\ input = <<>> /\ phase = "build" /\ ls = S0 /\ out = <<>> /\ post = PostEof

Build == /\ phase = "build" /\ Len(chunks) < MaxLen
         /\ \E c \in Chunks : chunks' = Append(chunks, c) /\ input' = input \o c
         /\ UNCHANGED <<phase, ls, out, post>>
Start == /\ phase = "build" /\ phase' = "lex" /\ ls' = S0     \* lexer.New
         /\ UNCHANGED <<input, chunks, out, post>>
Lex   == /\ phase \in {"lex", "post"}
         /\ Len(out) <= MaxTokens          \* a lexer that went further is stuck: the run is cut (Cut) and Bounded fails
         /\ LET r == NextToken(ls) IN
            /\ out' = Append(out, r.tok) /\ ls' = r.st
            /\ IF phase = "lex"
               THEN /\ phase' = (IF r.tok.type # "EOF" THEN "lex" ELSE IF post = 0 THEN "done" ELSE "post")
                    /\ post' = post
               ELSE /\ post' = post - 1 /\ phase' = (IF post = 1 THEN "done" ELSE "post")
         /\ UNCHANGED <<input, chunks>>
Cut   == /\ phase \in {"lex", "post"} /\ Len(out) > MaxTokens /\ phase' = "done"
         /\ UNCHANGED <<input, chunks, ls, out, post>>
Next == Build \/ Start \/ Lex \/ Cut
Spec == Init /\ [][Next]_vars /\ WF_vars(Lex)

----------------------------------------------------------------------------
\* every NextToken makes progress: the cursor advances, or a pushed token leaves the queue, or it is EOF
Progress == [][phase = "lex" /\ phase' # "build" =>
                 \/ ls'.i > ls.i
                 \/ ls'.i = ls.i /\ Len(ls'.q) < Len(ls.q)
                 \/ out'[Len(out')].type = "EOF"]_vars
LexTerminates == (phase = "lex") ~> (phase = "done")
\* safety form of termination (a long string opener of two characters yields three tokens)
Bounded == Len(out) <= MaxTokens

FirstEof == CHOOSE k \in 1..Len(out) : out[k].type = "EOF" /\ \A j \in 1..(k - 1) : out[j].type # "EOF"
HasEof == \E k \in 1..Len(out) : out[k].type = "EOF"
Main == IF HasEof THEN SubSeq(out, 1, FirstEof) ELSE out
AllLocated       == LET starts == LineStarts IN \A k \in 1..Len(Main) : LocatedS(starts, Main[k])
AllAtLexemeStart == \A k \in 1..Len(Main) : AtLexemeStart(Main[k])
AllTyped         == \A k \in 1..Len(out) : out[k].type # ""
\* tokens do not overlap and come in source order
InOrder == \A k \in 1..(Len(Main) - 1) : Main[k].from <= Main[k + 1].from /\ Main[k].from >= 1

----------------------------------------------------------------------------
RECURSIVE Join(_)
Join(seq) == IF seq = <<>> THEN "" ELSE Head(seq) \o Join(Tail(seq))
Proj(t) == [type |-> t.type, lit |-> Join(t.lit), line |-> t.line, col |-> t.col]
\* req: the requirement layer evaluated on this run (all TRUE unless the mechanism breaks the property:
\* then the replay shows whether the code does, too)
Emit == phase = "done" =>
          PrintT(<<"BEHAVIOUR", ToJson([input |-> [k \in 1..Len(chunks) |-> Join(chunks[k])],
                                        n |-> N,
                                        tokens |-> [k \in 1..Len(out) |-> Proj(out[k])],
                                        req |-> [typed |-> AllTyped, located |-> AllLocated, start |-> AllAtLexemeStart,
                                                 order |-> InOrder, bounded |-> Bounded /\ HasEof]])>>)
=============================================================================
