----------------------------- MODULE LexerCore -----------------------------
(***************************************************************************)
(* falco's lexer (lexer/lexer.go, lexer/reader.go) over the source held in  *)
(* the variable `input` (a sequence of characters, see Chars.tla).          *)
(*                                                                         *)
(* MECHANISM LAYER  - NextToken(s): one operator clause per arm of the Go   *)
(*   switch, one recursive operator per read* helper.  A lexer state is     *)
(*   [i, line, col, eof, q]: i = index of the character under the cursor    *)
(*   (l.char = Ch(i); i = N+1 once ReadRune failed), line/col = l.line /    *)
(*   l.index, eof = l.isEOF, etok = l.eof (the EOF token, returned again by *)
(*   every later call), q = l.peeks (tokens pushed by the long-string arm). *)
(*   Every reader has the decreasing measure N + 1 - i.                     *)
(* REQUIREMENT LAYER - Located(t): stated from the input alone (property    *)
(*   C01): a token has a type, and its (line, col) is a position of the     *)
(*   input at which the text the token stands for begins.                   *)
(***************************************************************************)
EXTENDS Chars

VARIABLE input
N == Len(input)
Ch(i) == IF i >= 1 /\ i <= N THEN input[i] ELSE NUL

----------------------------------------------------------------------------
(* readChar / peekChar / skipBytes / NewLine *)

\* Lexer.readChar: ReadRune fails at the end (char := NUL, index++, no NewLine);
\* otherwise NewLine() first when the character being left is LF, then index++.
ReadChar(s) ==
  IF s.i + 1 > N THEN [s EXCEPT !.i = N + 1, !.col = s.col + 1]
  ELSE IF Ch(s.i) = "\n" THEN [s EXCEPT !.i = s.i + 1, !.line = s.line + 1, !.col = 1]
  ELSE [s EXCEPT !.i = s.i + 1, !.col = s.col + 1]
\* Lexer.peekChar looks at one byte: the next character when it is ASCII, NUL at the end;
\* the first byte of a wider rune equals no character the lexer compares with.
Peek(s) == Ch(s.i + 1)
\* Lexer.skipBytes(n) over n ASCII bytes that were peeked before: no NewLine, index += n
Skip(s, n) == [s EXCEPT !.i = s.i + n, !.col = s.col + n]
\* lexer.New: line 1, index 0, then one readChar
NoToken == [type |-> "none", lit |-> <<>>, line |-> 0, col |-> 0, from |-> 0, to |-> 0]
S0 == ReadChar([i |-> 0, line |-> 1, col |-> 0, eof |-> FALSE, etok |-> NoToken, q |-> <<>>])

RECURSIVE SkipWs(_)
SkipWs(s) == IF Ch(s.i) \in White THEN SkipWs(ReadChar(s)) ELSE s

\* a token; from..to is the extent of the lexeme in the input (requirement layer bookkeeping)
Tok(ty, lit, line, col, from, to) ==
  [type |-> ty, lit |-> lit, line |-> line, col |-> col, from |-> from, to |-> to]

----------------------------------------------------------------------------
(* reader.go - every reader returns <<literal, state>>, the state being the *)
(* one the Go function leaves behind                                        *)

\* readString: after the opening quote, up to the closing quote or NUL (cursor stays on it)
RECURSIVE ReadStr(_, _)
ReadStr(s, acc) == IF Ch(s.i) = "\"" \/ Ch(s.i) = NUL THEN <<acc, s>>
                   ELSE ReadStr(ReadChar(s), Append(acc, Ch(s.i)))
\* readEOL: from the comment marker to the last character before LF / the end / a NUL byte
RECURSIVE ReadEOL(_, _)
ReadEOL(s, acc) == LET a == Append(acc, Ch(s.i)) IN
                   IF Peek(s) = NUL \/ Peek(s) = "\n" THEN <<a, s>> ELSE ReadEOL(ReadChar(s), a)
\* readMultiComment: starts on the '/', ends on the '/' of the first "*/" or on NUL
RECURSIVE ReadMulti(_, _)
ReadMulti(s, acc) ==
  IF Ch(s.i) = NUL THEN <<acc, s>>
  ELSE IF Ch(s.i) = "*" /\ Peek(s) = "/" THEN <<acc \o <<"*", "/">>, ReadChar(s)>>
  ELSE ReadMulti(ReadChar(s), Append(acc, Ch(s.i)))
\* readIdentifier
RECURSIVE ReadIdent(_, _)
ReadIdent(s, acc) == IF Ch(s.i) \in Letter THEN ReadIdent(ReadChar(s), Append(acc, Ch(s.i))) ELSE <<acc, s>>
\* the continuation loop of the identifier arm: - . : * and digits glue further identifier parts
RECURSIVE IdentMore(_, _)
IdentMore(s, acc) ==
  IF Ch(s.i) \in {"-", ".", ":", "*"} \cup Digit
  THEN LET r == ReadIdent(ReadChar(s), <<>>) IN IdentMore(r[2], acc \o <<Ch(s.i)>> \o r[1])
  ELSE <<acc, s>>
RECURSIVE ReadSet(_, _, _)
ReadSet(s, acc, set) == IF Ch(s.i) \in set THEN ReadSet(ReadChar(s), Append(acc, Ch(s.i)), set) ELSE <<acc, s>>
\* readExponent: marker, optional sign, decimal digits
ReadExp(s, acc) ==
  LET s1 == ReadChar(s)
      a1 == Append(acc, Ch(s.i))
      sg == Ch(s1.i) \in {"+", "-"}
  IN ReadSet(IF sg THEN ReadChar(s1) ELSE s1, IF sg THEN Append(a1, Ch(s1.i)) ELSE a1, DecDigit)
\* readNumber: <<literal, state, isFloat, rtimeEligible>>
ReadNumber(s) ==
  IF Ch(s.i) = "0" /\ Peek(s) \in {"x", "X"}
  THEN LET h1 == ReadSet(ReadChar(ReadChar(s)), <<"0", Peek(s)>>, HexDigit)
           dot == Ch(h1[2].i) = "."
           h2 == IF dot THEN ReadSet(ReadChar(h1[2]), Append(h1[1], "."), HexDigit) ELSE h1
           ex == Ch(h2[2].i) = "p"
           h3 == IF ex THEN ReadExp(h2[2], h2[1]) ELSE h2
       IN <<h3[1], h3[2], dot \/ ex, FALSE>>
  ELSE LET d1 == ReadSet(s, <<>>, DecDigit)
           dot == Ch(d1[2].i) = "."
           d2 == IF dot THEN ReadSet(ReadChar(d1[2]), Append(d1[1], "."), DecDigit) ELSE d1
           ex == Ch(d2[2].i) = "e"
           d3 == IF ex THEN ReadExp(d2[2], d2[1]) ELSE d2
       IN <<d3[1], d3[2], dot \/ ex, ~ex>>
\* bytes left after the character under the cursor (bufio.Reader.Peek(n) fails when fewer than n remain)
RECURSIVE BytesFrom(_)
BytesFrom(j) == IF j > N THEN 0 ELSE Width(input[j]) + BytesFrom(j + 1)
MatchAt(j, pat) == \A k \in 1..Len(pat) : Ch(j + k - 1) = pat[k]
\* readBracketString(delimiter), entered after its first readChar
RECURSIVE ReadBracket(_, _, _)
ReadBracket(s, D, acc) ==
  IF Ch(s.i) = NUL THEN <<acc, s>>
  ELSE IF Ch(s.i) = "\"" /\ BytesFrom(s.i + 1) < Len(D) + 1 THEN <<acc, s>>           \* Peek error: break
  ELSE IF Ch(s.i) = "\"" /\ MatchAt(s.i + 1, D \o <<"}">>) THEN <<acc, Skip(s, Len(D) + 1)>>
  ELSE ReadBracket(ReadChar(s), D, Append(acc, Ch(s.i)))
\* peekUntil(not a delimiter character): index of the first non-delimiter after i, N + 1 = ran into the end
RECURSIVE DelimEnd(_)
DelimEnd(j) == IF j <= N /\ input[j] \in Delim THEN DelimEnd(j + 1) ELSE j

----------------------------------------------------------------------------
(* Lexer.NextToken: returns [tok, st] *)

NextToken(s00) ==
  IF s00.q # <<>> THEN [tok |-> Head(s00.q), st |-> [s00 EXCEPT !.q = Tail(s00.q)]]   \* dequeue a pushed token
  ELSE IF s00.eof THEN [tok |-> s00.etok, st |-> s00]                                  \* nothing is lexed after EOF
  ELSE
  LET s == SkipWs(s00)
      c == Ch(s.i)
      p == Peek(s)
      p2 == Ch(s.i + 2)
      T(ty, lit, to) == Tok(ty, lit, s.line, s.col, s.i, to)
      \* arms that end in the common trailing l.readChar()
      One(ty)   == [tok |-> T(ty, <<c>>, s.i), st |-> ReadChar(s)]
      Two(ty)   == [tok |-> T(ty, <<c, p>>, s.i + 1), st |-> ReadChar(ReadChar(s))]
      Three(ty) == [tok |-> T(ty, <<c, p, p2>>, s.i + 2), st |-> ReadChar(ReadChar(ReadChar(s)))]
  IN
  CASE c = "=" -> IF p = "=" THEN Two("EQUAL") ELSE One("ASSIGN")
    [] c = "-" -> IF p = "=" THEN Two("SUBTRACTION") ELSE One("MINUS")
    [] c = "{" ->
         LET j == DelimEnd(s.i + 1) IN
         IF j > N \/ input[j] # "\"" THEN One("LEFT_BRACE")
         ELSE LET D  == SubSeq(input, s.i + 1, j - 1)
                  s1 == Skip(s, Len(D) + 1)                     \* on the quote; l.char is stale
                  r  == ReadBracket(ReadChar(s1), D, <<>>)
                  s2 == r[2]
                  stok == Tok("STRING", r[1], s1.line, s1.col, s1.i, s2.i)
                  ctok == Tok("CLOSE_LONG_STRING", D, s2.line, s2.col,
                            IF s2.i > Len(D) + 1 /\ MatchAt(s2.i - Len(D) - 1, <<"\"">> \o D \o <<"}">>)
                              THEN s2.i - Len(D) - 1 ELSE s2.i, s2.i)
              IN [tok |-> T("OPEN_LONG_STRING", D, j), st |-> [ReadChar(s2) EXCEPT !.q = <<stok, ctok>>]]
    [] c = "}" -> One("RIGHT_BRACE")
    [] c = "(" -> One("LEFT_PAREN")
    [] c = ")" -> One("RIGHT_PAREN")
    [] c = "[" -> One("LEFT_BRACKET")
    [] c = "]" -> One("RIGHT_BRACKET")
    [] c = "\"" -> LET r == ReadStr(ReadChar(s), <<>>) IN [tok |-> T("STRING", r[1], r[2].i), st |-> ReadChar(r[2])]
    [] c = ";" -> One("SEMICOLON")
    [] c = "." -> One("DOT")
    [] c = "," -> One("COMMA")
    [] c = "/" -> IF p = "=" THEN Two("DIVISION")
                  ELSE IF p = "/" THEN LET r == ReadEOL(s, <<>>) IN [tok |-> T("COMMENT", r[1], r[2].i), st |-> ReadChar(r[2])]
                  ELSE IF p = "*" THEN LET r == ReadMulti(s, <<>>) IN [tok |-> T("COMMENT", r[1], r[2].i), st |-> ReadChar(r[2])]
                  ELSE One("SLASH")
    [] c = "#" -> LET r == ReadEOL(s, <<>>) IN [tok |-> T("COMMENT", r[1], r[2].i), st |-> ReadChar(r[2])]
    [] c = "|" -> IF p = "|" THEN (IF p2 = "=" THEN Three("LOGICAL_OR") ELSE Two("OR"))
                  ELSE IF p = "=" THEN Two("BITWISE_OR") ELSE One("ILLEGAL")
    [] c = "&" -> IF p = "&" THEN (IF p2 = "=" THEN Three("LOGICAL_AND") ELSE Two("AND"))
                  ELSE IF p = "=" THEN Two("BITWISE_AND") ELSE One("ILLEGAL")
    [] c = "^" -> IF p = "=" THEN Two("BITWISE_XOR") ELSE One("ILLEGAL")
    [] c = "+" -> IF p = "=" THEN Two("ADDITION") ELSE One("PLUS")
    [] c = ">" -> IF p = ">" THEN (IF p2 = "=" THEN Three("RIGHT_SHIFT") ELSE Two("ILLEGAL"))
                  ELSE IF p = "=" THEN Two("GREATER_THAN_EQUAL") ELSE One("GREATER_THAN")
    [] c = "<" -> IF p = "<" THEN (IF p2 = "=" THEN Three("LEFT_SHIFT") ELSE Two("ILLEGAL"))
                  ELSE IF p = "=" THEN Two("LESS_THAN_EQUAL") ELSE One("LESS_THAN")
    [] c = "%" -> IF p = "=" THEN Two("REMAINDER") ELSE One("PERCENT")
    [] c = ":" -> One("COLON")
    [] c = "~" -> One("REGEX")
    [] c = "!" -> IF p = "=" THEN Two("NOTEQUAL") ELSE IF p = "~" THEN Two("NOT_REGEX_MATCH") ELSE One("NOT")
    [] c = "*" -> IF p = "=" THEN Two("MULTIPLICATION") ELSE One("ILLEGAL")
    [] c = NUL -> \* the end of the source or a NUL byte: EOF here, NewLine(), and the lexer stops for good
                  [tok |-> T("EOF", <<>>, s.i),
                   st |-> [s EXCEPT !.line = s.line + 1, !.col = 0, !.eof = TRUE, !.etok = T("EOF", <<>>, s.i)]]
    [] c = "\n" -> One("LF")
    [] OTHER ->
         IF c \in {"C", "W"} /\ p = "!" THEN Two("CONTROL")
         ELSE IF c \in Letter THEN
           LET r1 == ReadIdent(s, <<>>) IN
           IF r1[1] = <<"d","e","f","a","u","l","t">> THEN [tok |-> T("DEFAULT", r1[1], r1[2].i - 1), st |-> r1[2]]
           ELSE LET r2 == IdentMore(r1[2], r1[1])
                    e == r2[2]
                IN IF r2[1] \in {<<"r","o","l">>, <<"r","o","r">>} /\ Ch(e.i) = "="
                   THEN [tok |-> T(IF r2[1][3] = "l" THEN "LEFT_ROTATE" ELSE "RIGHT_ROTATE", Append(r2[1], "="), e.i),
                         st |-> ReadChar(e)]
                   ELSE [tok |-> T(LookupIdent(r2[1]), r2[1], e.i - 1), st |-> e]
         ELSE IF c \in Digit THEN   \* '.' itself is taken by the DOT arm above
           LET n == ReadNumber(s)
               e == n[2]
           IN IF n[4] /\ Ch(e.i) = "m"
                THEN (IF Peek(e) = "s" THEN [tok |-> T("RTIME", n[1] \o <<"m","s">>, e.i + 1), st |-> ReadChar(ReadChar(e))]
                      ELSE [tok |-> T("RTIME", Append(n[1], "m"), e.i), st |-> ReadChar(e)])
              ELSE IF n[4] /\ Ch(e.i) \in {"s", "h", "d", "y"}
                THEN [tok |-> T("RTIME", Append(n[1], Ch(e.i)), e.i), st |-> ReadChar(e)]
              ELSE [tok |-> T(IF n[3] THEN "FLOAT" ELSE "INT", n[1], e.i - 1), st |-> e]
         ELSE One("ILLEGAL")

\* Lexer.PeekToken: the head of the queue, lexing one token into it when it is empty
PeekToken(s) == IF s.q # <<>> THEN [tok |-> Head(s.q), st |-> s]
                ELSE LET r == NextToken(s) IN [tok |-> r.tok, st |-> [r.st EXCEPT !.q = <<r.tok>> \o r.st.q]]

\* the token stream up to and including the first EOF, then `extra` more pulls (what a parser
\* reads past the end); fuel bounds the recursion independently of Progress
RECURSIVE Stream(_, _, _)
Stream(s, extra, fuel) ==
  LET r == NextToken(s) IN
  IF fuel = 0 THEN <<r.tok>>
  ELSE IF r.tok.type = "EOF" THEN (IF extra = 0 THEN <<r.tok>> ELSE <<r.tok>> \o Stream(r.st, extra - 1, fuel - 1))
  ELSE <<r.tok>> \o Stream(r.st, extra, fuel - 1)
Fuel == 2 * N + 8

----------------------------------------------------------------------------
(* REQUIREMENT LAYER (property C01), from the input alone                  *)

\* position of the k-th character (k = N + 1: one past the last) counted from the text, not by the lexer
RECURSIVE LastLF(_)
LastLF(k) == IF k = 0 THEN 0 ELSE IF input[k] = "\n" THEN k ELSE LastLF(k - 1)
RECURSIVE CountLF(_)
CountLF(k) == IF k = 0 THEN 0 ELSE (IF input[k] = "\n" THEN 1 ELSE 0) + CountLF(k - 1)
LineOf(k) == 1 + CountLF(k - 1)
ColOf(k)  == k - LastLF(k - 1)
\* the character index a (line, col) designates: 0 when there is no such place in the input.
\* Column len+1 of a line (the LF itself, or one past the end of the last line) is a place.
\* LineStarts[ln] = index of the first character of line ln (N + 1 for an empty last line)
RECURSIVE StartsFrom(_, _)
StartsFrom(k, acc) == IF k > N THEN acc ELSE StartsFrom(k + 1, IF input[k] = "\n" THEN Append(acc, k + 1) ELSE acc)
LineStarts == StartsFrom(1, <<1>>)
IndexOfS(starts, ln, col) ==
  IF ln < 1 \/ col < 1 \/ ln > Len(starts) THEN 0
  ELSE LET b == starts[ln]
           e == IF ln < Len(starts) THEN starts[ln + 1] - 1 ELSE N + 1   \* index of the line's LF / one past the end
       IN IF b + col - 1 > e THEN 0 ELSE b + col - 1
IndexOf(ln, col) == IndexOfS(LineStarts, ln, col)

NumLinesEnd == LineOf(N + 1)       \* line of the place one past the last character
\* the end of the input may be designated as one past the last character, in either reading of a
\* final LF (still on its line / first column of the next line), or - the lexer calls NewLine() once
\* at the end, and a parser reads more than one EOF - on the line after it.  The sentinel has no text,
\* so nothing more is demanded of its column.
AtEnd(ln, col) ==
  \/ IndexOf(ln, col) = N + 1
  \/ N >= 1 /\ ln = LineOf(N) /\ col > ColOf(N)
  \/ ln = NumLinesEnd + 1 /\ col >= 1
  \/ N >= 1 /\ input[N] = "\n" /\ ln = LineOf(N) + 1 /\ col >= 1

\* what the text at index k must look like for a token of this type and literal
TextAt(t, k) ==
  CASE t.type = "STRING"            -> Ch(k) = "\""          \* opening quote of "..." or of {"..."}
    [] t.type = "OPEN_LONG_STRING"  -> Ch(k) = "{" /\ MatchAt(k + 1, t.lit \o <<"\"">>)
    [] t.type = "CLOSE_LONG_STRING" -> \* a character of the closing "D} ; or where an unterminated long string stopped
                                       \/ \E b \in 0..(Len(t.lit) + 1) : k - b >= 1 /\ MatchAt(k - b, <<"\"">> \o t.lit \o <<"}">>)
                                       \/ Ch(k) \in {"\"", NUL}
    [] t.type = "LF"                -> Ch(k) = "\n"
    [] t.type = "EOF"               -> Ch(k) = NUL           \* a NUL byte ends the source; the end itself: AtEnd
    [] OTHER                        -> t.lit # <<>> /\ MatchAt(k, t.lit)

\* (starts = LineStarts, passed in so that a caller judging many tokens of one input computes it once)
LocatedS(starts, t) ==
  /\ t.type # ""
  /\ \/ LET k == IndexOfS(starts, t.line, t.col) IN k # 0 /\ TextAt(t, k)
     \/ t.type \in {"EOF", "CLOSE_LONG_STRING"} /\ AtEnd(t.line, t.col)
Located(t) == LocatedS(LineStarts, t)

\* stronger, for the mechanism's own tokens: the position is that of the first character of the lexeme
\* the mechanism consumed (for the long-string closer: of one of its characters)
AtLexemeStart(t) ==
  IF t.type = "EOF" /\ t.from > N THEN AtEnd(t.line, t.col)
  ELSE IF t.type = "CLOSE_LONG_STRING"
       THEN (\E k \in t.from..t.to : t.line = LineOf(k) /\ t.col = ColOf(k)) \/ (t.to > N /\ AtEnd(t.line, t.col))
  ELSE t.line = LineOf(t.from) /\ t.col = ColOf(t.from)
=============================================================================
