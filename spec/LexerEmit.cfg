SPECIFICATION Spec
CONSTANTS
  MaxLen = 3
  PostEof = 3
  Chunks <- QuickChunks
INVARIANTS
  Emit
CHECK_DEADLOCK FALSE
