SPECIFICATION Spec
CONSTANTS
  MaxRestarts = 3
  MaxReq = 2
  Urls = {"a", "b"}
  Statuses = {200}
  KCover = 1
INVARIANTS
  TablesAgree
  Bounded
  LogLastOnce
  RestartsCounted
  PathOK
  FirstRequestMisses
  CounterPersists
  HitIffStored
  ReportTruthful
  EmitInv
VIEW View
CHECK_DEADLOCK FALSE
