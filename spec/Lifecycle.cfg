SPECIFICATION Spec
CONSTANTS
  MaxRestarts = 3
  MaxReq = 2
  Urls = {"a", "b"}
  DefinedChoices <- AllDefined
  JailChoices = {FALSE, TRUE}
  Statuses = {200}
  KCover = 1
INVARIANTS
  TablesAgree
  Bounded
  LogLastOnce
  RestartsCounted
  PathOK
  FirstRequestMisses
  CounterPersists
  JailPersists
  HitIffStored
  ReportTruthful
  EmitInv
VIEW View
CHECK_DEADLOCK FALSE
