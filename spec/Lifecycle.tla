------------------------------ MODULE Lifecycle ------------------------------
(***************************************************************************)
(* The Fastly request state machine as falco's simulator runs it.          *)
(*                                                                         *)
(* One simulator instance serves a history of up to MaxReq requests.  The  *)
(* program under simulation defines every lifecycle subroutine; what a     *)
(* subroutine does when control reaches it for request n at restart count  *)
(* k is chosen lazily and nondeterministically from Beh(sub) - so TLC      *)
(* enumerates *paths*, not the 7^9 program product.                        *)
(*                                                                         *)
(* Two layers (DESIGN.md section 1):                                       *)
(*   requirement  RSucc / Allowed / the invariants at the end - from the   *)
(*                property text, the Fastly lifecycle quoted by the        *)
(*                linter's lintReturnStatement and docs/simulator.md;      *)
(*   mechanism    MSucc, Restart, Store, Lookup - one clause per switch    *)
(*                arm of interpreter/interpreter.go Process<Scope>,        *)
(*                restart(), updateCache(), cache.Get.                     *)
(* TLC checks mechanism |= requirement; the replayer drives the real       *)
(* interpreter through every emitted behaviour.                            *)
(***************************************************************************)
EXTENDS Naturals, Sequences, FiniteSets, TLC, Json

CONSTANTS MaxRestarts,   \* Fastly: a request may be restarted at most 3 times
          MaxReq,        \* requests per simulator history
          Urls,          \* request URLs = cache keys (vcl_hash keeps the default)
          Statuses,      \* what the stub origin answers: HTTP status code + 1000 * freshness-header variant (below)
          DefinedChoices,\* sets of lifecycle subroutines the program defines (an absent one takes its default action)
          JailChoices,   \* what a request does to the penalty box: "no", "long" (10 minutes), "short" (ShortTTL ticks)
          LookChoices,   \* does a request look whether the client is in the penalty box (subset of BOOLEAN)
          Waits,         \* ticks of real time that may pass between two requests ({0} = untimed)
          ShortTTL,      \* lifetime in ticks of an object stored by the "shortttl" variant / of a "short" penalty
          Timed,         \* offer the timed variants (the replayer then really sleeps: 1 tick = 150 ms)
          Restricted,    \* offer only the behaviours that matter for lifetimes (keeps the timed cover small)
          ObjVariants,   \* ... and among those the ones that vary object lifetimes (FALSE: penalty box only)
          KCover         \* how many trailing labels are part of the VIEW (k-switch cover)

Subs == {"recv", "hash", "hit", "miss", "pass", "fetch", "error", "deliver", "log"}
AllDefined == {Subs}
SomeAbsent == {Subs, Subs \ {"hit", "miss", "pass"}, {"recv", "fetch", "log"}, Subs \ {"recv", "hash", "log"},
               {"hit", "miss", "pass", "error", "deliver"}}

(* What a subroutine body can do.  "x_stmt" is the statement form, "x_ret" *)
(* the return(x) form; "none" falls off the end.  fetch/hit carry the      *)
(* variants that manipulate the object lifetime.                           *)
BehAll(s) ==
  CASE s = "recv"    -> {"none", "lookup", "pass", "error_stmt", "error_ret", "restart_stmt", "restart_ret", "unknown"}
    [] s = "hash"    -> {"none", "hash"}
    [] s = "hit"     -> {"none", "deliver", "pass", "error_stmt", "error_ret", "restart_stmt", "restart_ret", "expire", "unknown"}
    [] s = "miss"    -> {"none", "fetch", "pass", "error_stmt", "error_ret", "deliver_stale", "unknown"}
    [] s = "pass"    -> {"none", "pass", "error_stmt", "unknown"}
    [] s = "fetch"   -> {"none", "deliver", "deliver_stale", "pass", "hit_for_pass", "error_stmt", "error_ret",
                         "restart_stmt", "restart_ret", "ttl0", "uncacheable", "unknown"}
    [] s = "error"   -> {"none", "deliver", "deliver_stale", "restart_stmt", "restart_ret", "unknown"}
    [] s = "deliver" -> {"none", "deliver", "restart_stmt", "restart_ret", "unknown"}
    [] s = "log"     -> {"none", "deliver"}
BehFew(s) ==
  IF ~ObjVariants THEN {"none"}
  ELSE CASE s = "recv"    -> {"none", "pass"}
         [] s = "hit"     -> {"none", "restart_ret"}
         [] OTHER         -> {"none"}
Beh(s) == (IF Restricted THEN BehFew(s) ELSE BehAll(s))
             \cup (IF Timed /\ ObjVariants /\ s = "fetch" THEN {"shortttl"} ELSE {})
             \* `set obj.ttl = 1h` in vcl_hit: the object hit lives on past the lifetime it was stored with
             \cup (IF Timed /\ ObjVariants /\ s = "hit" THEN {"extend"} ELSE {})

IsRestart(b) == b \in {"restart_stmt", "restart_ret"}
IsError(b)   == b \in {"error_stmt", "error_ret"}
FallsOff(b)  == b \in {"none", "expire", "extend", "ttl0", "uncacheable", "shortttl"}

(***************************************************************************)
(* REQUIREMENT: successor of (subroutine, behaviour).  Result is a         *)
(* lifecycle subroutine, or "R" (restart: re-enter recv, counts against    *)
(* the bound), "LOOKUP" (hash, then hit iff an unexpired object is stored, *)
(* else miss), "HASHPASS" (hash, then pass), "END".                        *)
(* miss -> deliver_stale with no stale object: the documentation does not  *)
(* say; the requirement accepts deliver or a reported error ("STALE").     *)
(***************************************************************************)
\* an action name that does not exist (a misspelt `return(deliver_stal)`): no successor, the request ends in a reported error
RSucc(s, b) ==
  CASE b = "unknown" -> "BADACT"
    [] s = "recv"    -> IF b \in {"none", "lookup"} THEN "LOOKUP" ELSE IF b = "pass" THEN "HASHPASS"
                        ELSE IF IsError(b) THEN "error" ELSE "R"
    [] s = "hit"     -> IF FallsOff(b) \/ b = "deliver" THEN "deliver" ELSE IF b = "pass" THEN "pass"
                        ELSE IF IsError(b) THEN "error" ELSE "R"
    [] s = "miss"    -> IF b \in {"none", "fetch"} THEN "fetch" ELSE IF b = "pass" THEN "pass"
                        ELSE IF b = "deliver_stale" THEN "STALE" ELSE "error"
    [] s = "pass"    -> IF IsError(b) THEN "error" ELSE "fetch"
    [] s = "fetch"   -> IF IsError(b) THEN "error" ELSE IF IsRestart(b) THEN "R" ELSE "deliver"
    [] s = "error"   -> IF IsRestart(b) THEN "R" ELSE "deliver"
    [] s = "deliver" -> IF IsRestart(b) THEN "R" ELSE "log"
    [] s = "log"     -> "END"
    [] s = "hash"    -> "AFTERHASH"

(***************************************************************************)
(* MECHANISM: the switch at the end of each Process<Scope>.  "UNEXPECTED"  *)
(* is the default arm (a reported runtime error), "CRASH" a Go panic.      *)
(* After the fix: commits recorded in known_findings.jsonl the two tables  *)
(* coincide; TablesAgree below is checked by TLC on every run.             *)
(***************************************************************************)
MSucc(s, b) ==
  CASE b = "unknown" -> "BADACT"      \* the default arm of every Process<Scope> switch: "returned unexpected state"
    [] s = "recv"    -> IF b \in {"none", "lookup"} THEN "LOOKUP" ELSE IF b = "pass" THEN "HASHPASS"
                        ELSE IF IsError(b) THEN "error" ELSE "R"
    [] s = "hit"     -> IF FallsOff(b) \/ b = "deliver" THEN "deliver" ELSE IF b = "pass" THEN "pass"
                        ELSE IF IsError(b) THEN "error" ELSE "R"
    [] s = "miss"    -> IF b \in {"none", "fetch"} THEN "fetch" ELSE IF b = "pass" THEN "pass"
                        ELSE IF b = "deliver_stale" THEN "STALE" ELSE "error"
    [] s = "pass"    -> IF IsError(b) THEN "error" ELSE "fetch"
    [] s = "fetch"   -> IF IsError(b) THEN "error" ELSE IF IsRestart(b) THEN "R" ELSE "deliver"
    [] s = "error"   -> IF IsRestart(b) THEN "R" ELSE "deliver"
    [] s = "deliver" -> IF IsRestart(b) THEN "R" ELSE "log"
    [] s = "log"     -> "END"
    [] s = "hash"    -> "AFTERHASH"

TablesAgree == \A s \in Subs : \A b \in Beh(s) : MSucc(s, b) = RSucc(s, b)

VARIABLES
  req,       \* index of the request being served (1..MaxReq)
  url,       \* its URL
  status,    \* what the stub backend answers for it
  scope,     \* lifecycle subroutine about to run
  viaPass,   \* recv chose pass (hash is followed by pass, no lookup)
  restarts,  \* restart count of this request
  branch,    \* branch taken by the last lookup/pass decision of this request: "none","HIT","MISS"
  didLookupHit, \* the last *lookup* of this request found an object (the `cached` flag)
  attempt,   \* branch taken in the current attempt (since the last restart): "none","HIT","MISS"
  cache,     \* url |-> "none" | "fresh" | "expired"   (persists across requests)
  ttl0,      \* vcl_fetch set beresp.ttl = 0s in this attempt
  uncache,   \* vcl_fetch set beresp.cacheable = false in this attempt
  now,       \* real time in ticks (advances only between requests)
  expiry,    \* url |-> tick at which a "timed" object expires
  jailUntil, \* shared penalty box: tick until which the client is in it (0 = never put in)
  jail,      \* what this request does to the penalty box: "no" | "short" | "long" (after looking)
  look,      \* this request looks whether the client is in the penalty box
  count,     \* shared rate counter: every request increments it once, on its first entry into vcl_recv
  young,     \* the object under `url` was stored during this request (its entry time is "now")
  pc,        \* "run" | "done" (request finished ok) | "err" (reported error) | "stop"
  lastK,     \* last KCover labels <<sub, beh>> (part of the VIEW)
  \* ---- history, hidden from the VIEW ----
  defined,   \* lifecycle subroutines the program defines (all of them for generated programs)
  cur,       \* record of the request in progress
  hist       \* completed request records

vars == <<req, url, status, scope, viaPass, restarts, branch, didLookupHit, attempt, cache, now, expiry, count, jailUntil, jail, look, ttl0, uncache, young, pc, lastK, defined, cur, hist>>
View == <<req, url, status, scope, viaPass, restarts, branch, didLookupHit, attempt, cache, now, expiry, count, jailUntil, jail, look, ttl0, uncache, young, pc, lastK, defined>>

LongTicks == 1000
IsFresh(c, e, t, u) == c[u] = "fresh" \/ (c[u] = "timed" /\ t < e[u])
Fresh(u) == IsFresh(cache, expiry, now, u)
NewCur(u, st, sb) == [url |-> u, status |-> st, prog |-> <<>>, flows |-> <<>>, storedBefore |-> sb, seen |-> 0,
                      sawJail |-> FALSE, jail |-> "no", look |-> FALSE, wait |-> 0, t |-> 0]
\* a request may jail only when the client is not in the box at that moment (no overwrite of a running penalty)
JailOpts(t, ju) == {j \in JailChoices : j = "no" \/ ~(t < ju)}

Init ==
  /\ req = 1 /\ url \in Urls /\ status \in Statuses
  /\ scope = "recv" /\ viaPass = FALSE /\ restarts = 0 /\ branch = "none" /\ didLookupHit = FALSE /\ attempt = "none"
  /\ cache = [u \in Urls |-> "none"] /\ now = 0 /\ expiry = [u \in Urls |-> 0]
  /\ count = 0 /\ jailUntil = 0 /\ jail \in JailChoices /\ look \in LookChoices /\ ttl0 = FALSE /\ uncache = FALSE /\ young = FALSE
  /\ pc = "run" /\ lastK = <<>> /\ defined \in DefinedChoices
  /\ cur = [NewCur(url, status, FALSE) EXCEPT !.jail = jail, !.look = look] /\ hist = <<>>

PushK(l, x) == IF KCover = 0 THEN <<>> ELSE IF Len(l) < KCover THEN Append(l, x) ELSE Append(Tail(l), x)

(* updateCache(): called at the end of ProcessFetch whatever path led there *)
(* (also on the pass path - a named deviation from Fastly, see DESIGN C06). *)
(* The origin's answer is a status code plus a variant of its freshness headers (one directive per header):   *)
(*   0 Cache-Control: max-age=100     1 Cache-Control: max-age=0        2 Cache-Control: s-maxage=0           *)
(*   3 Surrogate-Control: max-age=100 + Cache-Control: max-age=0 (Surrogate-Control wins)                     *)
(*   4 no freshness header (default lifetime)                           5 Cache-Control: s-maxage=100         *)
(* Fastly stores a response iff its status is in the cacheable list and its lifetime is positive.            *)
Code(st) == st % 1000
Variant(st) == st \div 1000
Cacheable(st) == Code(st) \in {200, 203, 300, 301, 302, 404, 410}
TTLPositive(st) == Variant(st) \notin {1, 2}
StoreAfterFetch(c, u, st, t0, unc, short) ==
  \* an explicit `set beresp.ttl` in vcl_fetch (short / t0) overrides the lifetime the headers gave
  IF Cacheable(st) /\ ~unc /\ ~t0 /\ (short \/ TTLPositive(st)) THEN [c EXCEPT ![u] = (IF short THEN "timed" ELSE "fresh")] ELSE c

(* One subroutine runs and chooses behaviour b.  `logged` says whether the  *)
(* subroutine is defined (an absent one leaves no flow entry and takes its  *)
(* default); c1 is the cache after the step and absentRecv what an absent   *)
(* vcl_recv means - parameters so that the trace specification can be more  *)
(* liberal than the mechanism where the requirement is silent.              *)
MechCache(s, b) ==
  LET t0  == (s = "fetch" /\ b = "ttl0")
      unc == (s = "fetch" /\ b = "uncacheable") IN
  \* the restart *statement* over the limit raises its error inside vcl_fetch, before updateCache() runs
  IF s = "fetch" /\ b = "restart_stmt" /\ restarts >= MaxRestarts THEN cache
  ELSE IF s = "fetch" THEN StoreAfterFetch(cache, url, status, t0, unc, b = "shortttl")
  ELSE IF s = "hit" /\ b = "expire" THEN [cache EXCEPT ![url] = "expired"]
  ELSE IF s = "hit" /\ b = "extend" THEN [cache EXCEPT ![url] = "fresh"]
  ELSE cache

StepGen(b, logged, c1, absentRecv) ==
  LET s   == scope
      nx0 == IF ~logged /\ s = "recv" THEN absentRecv ELSE MSucc(s, b)
      \* hash: where control goes after vcl_hash
      nx  == IF s = "hash" THEN (IF viaPass THEN "pass" ELSE IF Fresh(url) THEN "hit" ELSE "miss") ELSE nx0
  IN
  /\ pc = "run"
  /\ b \in Beh(s)
  \* `set obj.ttl = 1ms` expires the object at entry time + 1ms: deterministic only for an object stored by an
  \* earlier request (the replayer pauses 2ms between requests), so the variant is offered only then
  /\ (b = "expire") => ~young
  /\ young' = (IF s = "fetch" /\ c1[url] \in {"fresh", "timed"} THEN TRUE ELSE young)
  /\ expiry' = (IF s = "fetch" /\ b = "shortttl" /\ c1[url] = "timed" THEN [expiry EXCEPT ![url] = now + ShortTTL] ELSE expiry)
  \* the generated program increments the shared rate counter on the first entry into vcl_recv and logs the
  \* count it got back: state that outlives a request persists (the n-th request served sees n)
  /\ count' = (IF logged /\ s = "recv" /\ restarts = 0 THEN count + 1 ELSE count)
  \* ... and looks whether the client is in the penalty box, then (if this request is a jailer) puts it in
  /\ jailUntil' = (IF logged /\ s = "recv" /\ restarts = 0 /\ jail # "no"
                   THEN now + (IF jail = "short" THEN ShortTTL ELSE LongTicks) ELSE jailUntil)
  /\ UNCHANGED <<jail, look, now>>
  /\ cur' = IF logged
            THEN [cur EXCEPT !.prog = Append(@, [sub |-> s, at |-> restarts, beh |-> b, vp |-> viaPass,
                                                 stored |-> Fresh(url)]),
                             !.flows = Append(@, s),
                             !.seen = (IF s = "recv" /\ restarts = 0 THEN count + 1 ELSE @),
                             !.sawJail = (IF s = "recv" /\ restarts = 0 THEN (look /\ now < jailUntil) ELSE @)]
            ELSE cur
  /\ lastK' = PushK(lastK, <<s, b>>)
  /\ cache' = c1
  /\ ttl0' = (IF s = "fetch" THEN b = "ttl0" ELSE ttl0)
  /\ uncache' = (IF s = "fetch" THEN b = "uncacheable" ELSE uncache)
  /\ branch' = IF s = "hash" THEN (IF nx = "hit" THEN "HIT" ELSE "MISS") ELSE branch
  /\ attempt' = IF s = "hash" THEN (IF nx = "hit" THEN "HIT" ELSE "MISS")
                ELSE IF nx = "R" /\ restarts < MaxRestarts THEN "none"
                ELSE attempt
  /\ didLookupHit' = IF s = "hash" THEN nx = "hit"
                     ELSE IF nx = "R" /\ restarts < MaxRestarts THEN FALSE   \* restart() starts a new attempt
                     ELSE didLookupHit
  /\ UNCHANGED <<req, url, status, hist, defined>>
  /\ CASE nx = "R" ->
            IF restarts < MaxRestarts
            THEN /\ scope' = "recv" /\ viaPass' = FALSE /\ restarts' = restarts + 1 /\ pc' = "run"
            ELSE /\ pc' = "err" /\ UNCHANGED <<scope, viaPass, restarts>>
       [] nx = "END"      -> pc' = "done" /\ UNCHANGED <<scope, viaPass, restarts>>
       [] nx = "LOOKUP"   -> scope' = "hash" /\ viaPass' = FALSE /\ pc' = "run" /\ UNCHANGED restarts
       [] nx = "HASHPASS" -> scope' = "hash" /\ viaPass' = TRUE /\ pc' = "run" /\ UNCHANGED restarts
       [] nx = "STALE"    -> pc' = "err" /\ UNCHANGED <<scope, viaPass, restarts>>   \* no stale object: reported error
       [] nx = "BADACT"   -> pc' = "err" /\ UNCHANGED <<scope, viaPass, restarts>>
       [] OTHER           -> scope' = nx /\ pc' = "run" /\ UNCHANGED <<viaPass, restarts>>

Step(b) == scope \in defined /\ StepGen(b, TRUE, MechCache(scope, b), "HASHPASS")
\* an absent subroutine takes its default action and leaves no flow entry; an absent vcl_recv passes
Skip    == scope \notin defined /\ StepGen("none", FALSE, MechCache(scope, "none"), "HASHPASS")

\* branch taken by the final attempt of a request (after its last restart): "HIT", "MISS" or "none"
RECURSIVE FinalBranch(_, _)
FinalBranch(fl, i) ==
  IF i = 0 THEN "none"
  ELSE IF fl[i] = "hit" THEN "HIT"
  ELSE IF fl[i] \in {"miss", "pass"} THEN (IF i > 1 /\ fl[i-1] = "hit" THEN "HIT" ELSE "MISS")
  ELSE IF fl[i] = "recv" THEN "none"
  ELSE FinalBranch(fl, i - 1)
CurDone == [url |-> cur.url, status |-> cur.status, prog |-> cur.prog, flows |-> cur.flows,
            storedBefore |-> cur.storedBefore, seen |-> cur.seen, sawJail |-> cur.sawJail, jail |-> cur.jail,
            look |-> cur.look, wait |-> cur.wait, t |-> cur.t, restarts |-> restarts,
            outcome |-> (IF pc = "done" THEN "ok" ELSE "error"), branch |-> branch, cached |-> didLookupHit,
            storedAfter |-> Fresh(cur.url),
            finalBranch |-> attempt]

NextRequest ==
  /\ pc \in {"done", "err"} /\ req < MaxReq
  /\ hist' = Append(hist, CurDone)
  /\ req' = req + 1 /\ url' \in Urls /\ status' \in Statuses
  /\ \E w \in Waits : now' = now + w
  /\ jail' \in JailOpts(now', jailUntil) /\ look' \in LookChoices
  /\ scope' = "recv" /\ viaPass' = FALSE /\ restarts' = 0 /\ branch' = "none" /\ didLookupHit' = FALSE /\ attempt' = "none"
  /\ ttl0' = FALSE /\ uncache' = FALSE /\ young' = FALSE /\ pc' = "run"
  /\ lastK' = PushK(lastK, <<"next", url', now' - now>>)
  /\ cur' = [NewCur(url', status', IsFresh(cache, expiry, now', url')) EXCEPT !.jail = jail', !.look = look',
                                                                          !.wait = now' - now, !.t = now']
  /\ UNCHANGED <<cache, expiry, count, jailUntil, defined>>

Next == (\E b \in Beh(scope) : Step(b)) \/ Skip \/ NextRequest
Spec == Init /\ [][Next]_vars /\ WF_vars(Next)

(***************************************************************************)
(* REQUIREMENT invariants, evaluated on the (hidden) history.              *)
(***************************************************************************)
Bounded == restarts <= MaxRestarts

Count(seq, x) == Cardinality({i \in 1..Len(seq) : seq[i] = x})

\* every request that does not end in a reported error runs vcl_log last and exactly once
LogLastOnce == (pc = "done" /\ "log" \in defined) => (Len(cur.flows) > 0 /\ cur.flows[Len(cur.flows)] = "log" /\ Count(cur.flows, "log") = 1)

\* re-entries of recv = restart count
RestartsCounted == "recv" \in defined => Count(cur.flows, "recv") + (IF pc = "run" /\ scope = "recv" THEN 1 ELSE 0) = restarts + 1

\* each consecutive pair of flows is an edge the requirement table allows for the behaviour chosen
EdgeOK(i) ==
  LET s == cur.flows[i]  b == cur.prog[i].beh  n == cur.flows[i+1]  r == RSucc(s, b) IN
    CASE r = "LOOKUP"    -> n = "hash"
      [] r = "HASHPASS"  -> n = "hash"
      [] r = "AFTERHASH" -> n \in {"hit", "miss", "pass"}
      [] r = "R"         -> n = "recv"
      [] r = "STALE"     -> n = "deliver"
      [] r = "BADACT"    -> FALSE      \* nothing runs after an action that does not exist
      [] r = "END"       -> FALSE
      [] OTHER           -> n = r
PathOK == defined = Subs => \A i \in 1..(Len(cur.flows) - 1) : EdgeOK(i)

\* the rate counter persists: the n-th request of a history sees n
CounterPersists == (Len(cur.flows) > 0 /\ "recv" \in defined) => cur.seen = req

\* the penalty box persists: a request that looks sees the client jailed iff an earlier request of the history put
\* it in and that penalty has not run out (stated over the history, independently of jailUntil)
Covers(h, t) == h.jail = "long" \/ (h.jail = "short" /\ t < h.t + ShortTTL)
JailPersists == (Len(cur.flows) > 0 /\ "recv" \in defined /\ cur.look)
                   => (cur.sawJail = \E i \in 1..Len(hist) : Covers(hist[i], cur.t))

\* never a hit on the first request to a fresh simulator
FirstRequestMisses == (req = 1 /\ restarts = 0) => branch # "HIT"

\* the hit branch is taken exactly when an unexpired object is stored (checked at the step after hash)
HitIffStored ==
  defined = Subs => \A i \in 1..(Len(cur.flows) - 1) :
     cur.flows[i] = "hash" =>
        cur.flows[i+1] = (IF cur.prog[i].vp THEN "pass" ELSE IF cur.prog[i].stored THEN "hit" ELSE "miss")

\* the report says which branch was taken: X-Cache (branch) and `cached` agree with the final attempt
ReportTruthful ==
  (pc = "done" /\ defined = Subs) => (/\ attempt = FinalBranch(cur.flows, Len(cur.flows))
                  /\ attempt # "none" => (branch = attempt /\ didLookupHit = (attempt = "HIT")))

Terminates == <>(pc \in {"done", "err"})

(***************************************************************************)
(* Behaviours for the replayer.  The request in progress is completed by   *)
(* the default continuation (every remaining subroutine falls off its end).*)
(***************************************************************************)
RECURSIVE Rest(_, _, _, _, _)
\* returns [flows, cache, branch, cached, attempt]
Log(acc, s) == IF s \in defined THEN [acc EXCEPT !.flows = Append(@, s)] ELSE acc
Rest(s, vp, c, acc, br) ==
  IF s = "hash" THEN
       LET n == IF vp THEN "pass" ELSE IF IsFresh(c, expiry, now, url) THEN "hit" ELSE "miss" IN
       Rest(n, vp, c, [Log(acc, "hash") EXCEPT !.branch = (IF n = "hit" THEN "HIT" ELSE "MISS"),
                                              !.attempt = (IF n = "hit" THEN "HIT" ELSE "MISS"),
                                              !.cached = (n = "hit")], br)
  ELSE LET nx == IF s = "recv" /\ s \notin defined THEN "HASHPASS" ELSE MSucc(s, "none")
           a1 == Log(acc, s)
           c1 == IF s = "fetch" THEN StoreAfterFetch(c, url, status, FALSE, FALSE, FALSE) ELSE c IN
       IF nx = "END" THEN [a1 EXCEPT !.cache = c1]
       ELSE IF nx = "LOOKUP" THEN Rest("hash", FALSE, c1, a1, br)
       ELSE IF nx = "HASHPASS" THEN Rest("hash", TRUE, c1, a1, br)
       ELSE Rest(nx, vp, c1, a1, br)

FirstRecvPending == pc = "run" /\ scope = "recv" /\ restarts = 0
Completed ==
  IF pc = "run" THEN
     LET r == Rest(scope, viaPass, cache, [flows |-> cur.flows, cache |-> cache, branch |-> branch, cached |-> didLookupHit,
                                           attempt |-> attempt], branch) IN
     [url |-> cur.url, status |-> cur.status, prog |-> cur.prog, flows |-> r.flows,
      storedBefore |-> cur.storedBefore,
      seen |-> (IF FirstRecvPending /\ "recv" \in defined THEN count + 1 ELSE cur.seen),
      sawJail |-> (IF FirstRecvPending /\ "recv" \in defined THEN (look /\ now < jailUntil) ELSE cur.sawJail),
      jail |-> cur.jail, look |-> cur.look, wait |-> cur.wait, t |-> cur.t,
      restarts |-> restarts, outcome |-> "ok",
      branch |-> r.branch, cached |-> r.cached, storedAfter |-> IsFresh(r.cache, expiry, now, cur.url),
      finalBranch |-> r.attempt]
  ELSE CurDone

Emit == PrintT(<<"BEHAVIOUR", ToJson([defined |-> defined, reqs |-> Append(hist, Completed)])>>)

\* model checking: one behaviour per view-state (the k-switch cover); simulation: one per finished history
EmitInv == Emit
EmitEndInv == (pc \in {"done", "err"} /\ req = MaxReq) => Emit
=============================================================================
