SPECIFICATION Spec
CONSTANTS
  MaxRestarts = 3
  MaxReq = 3
  Urls = {"a", "b"}
  DefinedChoices <- AllDefined
  JailChoices = {FALSE, TRUE}
  Statuses = {200, 500}
  KCover = 0
INVARIANTS
  Bounded
  LogLastOnce
  RestartsCounted
  PathOK
  FirstRequestMisses
  CounterPersists
  JailPersists
  HitIffStored
  ReportTruthful
  EmitEndInv
CHECK_DEADLOCK FALSE
