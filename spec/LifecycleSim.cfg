SPECIFICATION Spec
CONSTANTS
  MaxRestarts = 3
  MaxReq = 3
  Urls = {"a", "b"}
  DefinedChoices <- AllDefined
  JailChoices = {"no", "long"}
  LookChoices = {TRUE}
  Waits = {0}
  ShortTTL = 5
  Timed = FALSE
  Restricted = FALSE
  ObjVariants = TRUE
  Statuses = {200, 500}
  KCover = 0
INVARIANTS
  Bounded
  LogLastOnce
  RestartsCounted
  PathOK
  FirstRequestMisses
  CounterPersists
  JailPersists
  HitIffStored
  ReportTruthful
  EmitEndInv
CHECK_DEADLOCK FALSE
