SPECIFICATION Spec
CONSTANTS
  MaxRestarts = 3
  MaxReq = 3
  Urls = {"a", "b"}
  Statuses = {200, 500}
  KCover = 0
INVARIANTS
  Bounded
  LogLastOnce
  RestartsCounted
  PathOK
  FirstRequestMisses
  CounterPersists
  HitIffStored
  ReportTruthful
  EmitEndInv
CHECK_DEADLOCK FALSE
