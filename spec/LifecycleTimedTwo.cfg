SPECIFICATION Spec
CONSTANTS
  MaxRestarts = 3
  MaxReq = 3
  Urls = {"a", "b"}
  DefinedChoices <- AllDefined
  JailChoices = {"no"}
  LookChoices = {FALSE}
  Waits = {0, 1, 8}
  ShortTTL = 5
  Timed = TRUE
  Restricted = TRUE
  ObjVariants = TRUE
  Statuses = {200}
  KCover = 0
INVARIANTS
  TablesAgree
  Bounded
  LogLastOnce
  RestartsCounted
  PathOK
  FirstRequestMisses
  CounterPersists
  JailPersists
  HitIffStored
  ReportTruthful
  EmitEndInv
VIEW View
CHECK_DEADLOCK FALSE
