SPECIFICATION TSpec
CONSTANTS
  MaxRestarts = 3
  MaxReq = 2
  Urls = {"a"}
  Statuses = {200}
  JailChoices = {FALSE}
  KCover = 2
INVARIANTS
  Bounded
  RestartsCounted
  ProgressBound
  NeverStuck
  EmitInv
VIEW View
CHECK_DEADLOCK FALSE
