---------------------------- MODULE LifecycleTotal ----------------------------
(***************************************************************************)
(* C08, lifecycle part: the request state machine of Lifecycle.tla driven  *)
(* only by *hostile* programs - every subroutine restarts, raises an error *)
(* or asks for a stale object whenever control reaches it.  Requirement:   *)
(* every request still ends (done or reported error) and the restart count *)
(* never exceeds MaxRestarts - for `restart;`, `return(restart);`, in      *)
(* every scope that allows them, for up to MaxReq requests per simulator.  *)
(* Lifecycle.tla itself is not modified; its actions are reused.           *)
(***************************************************************************)
EXTENDS Lifecycle

Hostile(s) == Beh(s) \cap {"restart_stmt", "restart_ret", "error_stmt", "error_ret", "deliver_stale", "none"}
TNext == (\E b \in Hostile(scope) : Step(b)) \/ Skip \/ NextRequest
TSpec == Init /\ [][TNext]_vars /\ WF_vars(TNext)

\* Termination as a bounded-progress safety property (the flow history is hidden from the state identity by the
\* VIEW, which TLC cannot combine with liveness checking): a request visits at most 9 subroutines per attempt and
\* makes at most MaxRestarts + 1 attempts, so its flow never grows beyond that - and a request that is still
\* running always has a successor (no deadlock while pc = "run").
ProgressBound == Len(cur.flows) <= 9 * (MaxRestarts + 1)
NeverStuck == (pc = "run") => ENABLED TNext
=============================================================================
