SPECIFICATION TraceSpec
CONSTANTS
  MaxRestarts = 3
  MaxReq = 99
  Urls = {"a", "b", "c"}
  DefinedChoices <- AllDefined
  JailChoices = {"no"}
  LookChoices = {TRUE}
  Waits = {0}
  ShortTTL = 5
  Timed = TRUE
  Restricted = FALSE
  ObjVariants = TRUE
  Statuses = {200}
  KCover = 0
  TraceFile = "traces.ndjson"
INVARIANTS
  TraceBounded
  AcceptInv
CHECK_DEADLOCK FALSE
