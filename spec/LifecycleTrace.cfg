SPECIFICATION TraceSpec
CONSTANTS
  MaxRestarts = 3
  MaxReq = 99
  Urls = {"a", "b", "c"}
  DefinedChoices <- AllDefined
  JailChoices = {FALSE}
  Statuses = {200}
  KCover = 0
  TraceFile = "traces.ndjson"
INVARIANTS
  TraceBounded
  AcceptInv
CHECK_DEADLOCK FALSE
