--------------------------- MODULE LifecycleTrace ---------------------------
(***************************************************************************)
(* Trace validation for Lifecycle: executions recorded from the real       *)
(* interpreter (replayed behaviours, the repository's own tests through    *)
(* hook H1, random programs) are accepted iff they are behaviours of the   *)
(* specification with every requirement holding at every step.             *)
(*                                                                         *)
(* One trace = the requests served by one simulator, in order.  Each       *)
(* request record carries the lifecycle subroutines that ran (flows), for  *)
(* generated programs the behaviour chosen in each (acts, exact = TRUE),   *)
(* and the report (restarts, outcome, X-Cache, cached, cache peeks).       *)
(* Unlogged variables (behaviours of unknown programs, object lifetimes)   *)
(* are inferred by TLC.  Traces are independent initial states; a trace is *)
(* accepted when some branch consumes it completely (an ACCEPT line).      *)
(***************************************************************************)
EXTENDS Lifecycle, TLCExt

CONSTANT TraceFile
Traces == ndJsonDeserialize(TraceFile)

VARIABLES t,   \* trace index
          r,   \* index (within the trace) of the request being validated
          l,   \* next flow entry of the request to consume
          fin  \* requests of the trace already validated
tvars == <<vars, t, r, l, fin>>

Rq(tt, rr) == Traces[tt].reqs[rr]
Rec == Rq(t, r)
SetOf(seq) == {seq[i] : i \in 1..Len(seq)}

(* Which request may be taken next.  A sequential trace (one client) is    *)
(* validated in the recorded order.  A concurrent trace carries for every  *)
(* request the global sequence numbers of its start and end; any order     *)
(* that respects real-time precedence (a request that ended before         *)
(* another started comes first) may explain it - the specification of      *)
(* serialisability (C18): TLC searches for a linearisation.                *)
NReq(tt) == Len(Traces[tt].reqs)
Candidates(tt, done) ==
  IF Traces[tt].concurrent
  THEN {k \in (1..NReq(tt)) \ done :
          \A j \in (1..NReq(tt)) \ (done \cup {k}) : ~(Rq(tt, j).endSeq < Rq(tt, k).startSeq)}
  ELSE {k \in (1..NReq(tt)) \ done : \A j \in 1..(k - 1) : j \in done}

TraceInit ==
  \E tt \in 1..Len(Traces) : \E r0 \in Candidates(tt, {}) :
    LET q == Rq(tt, r0) IN
    /\ t = tt /\ r = r0 /\ l = 1 /\ fin = {}
    /\ q.knowBefore => ~q.storedBefore          \* never a stored object on the first request
    /\ req = 1 /\ url = q.url /\ status = q.status
    /\ scope = "recv" /\ viaPass = FALSE /\ restarts = 0 /\ branch = "none" /\ didLookupHit = FALSE
    /\ attempt = "none"
    /\ cache = [u \in Urls |-> "none"] /\ now = 0 /\ expiry = [u \in Urls |-> 0]
    /\ count = 0 /\ jailUntil = 0 /\ jail = q.jail /\ look = q.look /\ ttl0 = FALSE /\ uncache = FALSE /\ young = FALSE
    /\ pc = "run" /\ lastK = <<>> /\ defined = SetOf(q.defined)
    /\ cur = [NewCur(q.url, q.status, FALSE) EXCEPT !.jail = q.jail, !.look = q.look] /\ hist = <<>>

\* the current attempt went through vcl_pass (or recv chose pass)
OnPassPath ==
  viaPass \/ \E i \in 1..Len(cur.flows) : cur.flows[i] = "pass" /\ \A j \in i..Len(cur.flows) : cur.flows[j] # "recv"

(* What the cache may look like after subroutine s ran with behaviour b.   *)
(* Generated programs: the mechanism's store, and - because the            *)
(* requirement does not say whether a passed response is stored - also no  *)
(* store on the pass path.  Unknown programs: anything a program could do. *)
AllowedCache(s, b) ==
  IF Rec.exact
  THEN {MechCache(s, b)} \cup (IF s = "fetch" /\ OnPassPath THEN {cache} ELSE {})
  ELSE IF s = "fetch" THEN {cache, [cache EXCEPT ![url] = "fresh"]}
  ELSE IF s = "hit" THEN {cache, [cache EXCEPT ![url] = "expired"]}
  ELSE {cache}

TraceStep ==
  /\ pc = "run" /\ scope \in defined
  /\ l <= Len(Rec.flows) /\ Rec.flows[l] = scope
  /\ \E b \in Beh(scope) :
       /\ Rec.exact => Rec.acts[l] = b
       /\ \E c1 \in AllowedCache(scope, b) : StepGen(b, TRUE, c1, "HASHPASS")
  /\ l' = l + 1 /\ UNCHANGED <<t, r, fin>>

TraceSkip ==
  /\ pc = "run" /\ scope \notin defined
  /\ \E ar \in {"HASHPASS", "LOOKUP"} : \E c1 \in AllowedCache(scope, "none") : StepGen("none", FALSE, c1, ar)
  /\ UNCHANGED <<t, r, l, fin>>

\* the report of the finished request agrees with the state the specification reached
ReportOK ==
  attempt # "none" => (Rec.xcache = attempt /\ Rec.cached = (attempt = "HIT"))

ReqEndOK ==
  /\ l = Len(Rec.flows) + 1
  /\ Rec.restarts = restarts
  /\ CASE Rec.outcome = "ok"    -> pc = "done" /\ ReportOK
       [] Rec.outcome = "error" -> pc = "err" \/ (~Rec.exact /\ pc = "run")  \* an unknown program may fail anywhere
       [] OTHER                 -> FALSE                                      \* a crash is never a behaviour
  /\ Rec.knowAfter => (Rec.storedAfter = Fresh(url))
  /\ Rec.seen >= 0 => Rec.seen = cur.seen     \* rate counter value the request saw (generated programs)
  /\ (Rec.jailSeen >= 0 /\ cur.look) => (Rec.jailSeen = 1) = cur.sawJail   \* was the client in the penalty box

TraceNextReq ==
  /\ ReqEndOK
  /\ \E rn \in Candidates(t, fin \cup {r}) :
     LET q == Rq(t, rn)
         \* an object may expire between requests of an unknown program's trace (real time passes)
         cs == {cache} \cup (IF ~q.exact /\ cache[q.url] = "fresh" THEN {[cache EXCEPT ![q.url] = "expired"]} ELSE {})
         t1 == now + q.wait       \* the recorded number of ticks the harness let pass before this request
     IN
     /\ \E c \in cs : /\ cache' = c
                      /\ q.knowBefore => (q.storedBefore = IsFresh(c, expiry, t1, q.url))
                      /\ cur' = [NewCur(q.url, q.status, IsFresh(c, expiry, t1, q.url))
                                   EXCEPT !.jail = q.jail, !.look = q.look, !.wait = q.wait, !.t = t1]
     /\ now' = t1
     /\ url' = q.url /\ status' = q.status /\ defined' = SetOf(q.defined) /\ jail' = q.jail /\ look' = q.look
     /\ r' = rn
  /\ fin' = fin \cup {r} /\ l' = 1 /\ req' = req + 1
  /\ scope' = "recv" /\ viaPass' = FALSE /\ restarts' = 0 /\ branch' = "none" /\ didLookupHit' = FALSE
  /\ attempt' = "none" /\ ttl0' = FALSE /\ uncache' = FALSE /\ young' = FALSE /\ pc' = "run"
  /\ lastK' = <<>> /\ hist' = hist
  /\ UNCHANGED <<t, count, jailUntil, expiry>>

TraceNext == TraceStep \/ TraceSkip \/ TraceNextReq
TraceSpec == TraceInit /\ [][TraceNext]_tvars

Accepted == ReqEndOK /\ fin \cup {r} = 1..NReq(t)
AcceptInv == Accepted => PrintT(<<"BEHAVIOUR", ToJson([accept |-> Traces[t].id])>>)

\* requirement invariants of Lifecycle, evaluated at every step of every recorded execution
TraceBounded == restarts <= MaxRestarts
=============================================================================
