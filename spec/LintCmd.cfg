SPECIFICATION Spec
CONSTANTS
  Full = FALSE
INVARIANTS
  ExitOK
  CountsOK
  VerdictOK
  EmitInv
PROPERTIES
  Terminates
CHECK_DEADLOCK FALSE
