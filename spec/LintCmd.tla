------------------------------ MODULE LintCmd ------------------------------
(***************************************************************************)
(* `falco lint [-json] [-v|-vv] [-generated] FILE` as a decision procedure.*)
(*                                                                         *)
(* Requirement layer (property C04, docs/linter.md "Overriding Severity",  *)
(* "Error Levels"): the command exits non-zero exactly when the main file  *)
(* or an included file has a syntax error or at least one diagnostic whose *)
(* effective severity - after rule overrides and ignore comments - is      *)
(* ERROR; the reported counts are the numbers of diagnostics per effective *)
(* severity; neither depends on -json or on the verbosity.                 *)
(*                                                                         *)
(* Mechanism layer: the control flow of cmd/falco main -> runLint ->       *)
(* Runner.Run -> run -> parseVCL / linter / FatalError / the counting loop *)
(* (printLinterError counts while printing) -> the summary and the exit    *)
(* status, one action per step, with what each step writes.                *)
(*                                                                         *)
(* A cell = (program class, override setting, flags).  Every cell is one   *)
(* deterministic behaviour; TLC checks mechanism |= requirement on every   *)
(* cell and prints the cell with both predictions for the replay against   *)
(* the real binary.                                                        *)
(***************************************************************************)
EXTENDS Naturals, Sequences, FiniteSets, TLC, Json

CONSTANT Full       \* TRUE: the whole product; FALSE: flags/overrides paired sparsely (quick tier)

(***************************************************************************)
(* Programs.  A diagnostic kind stands for statement(s) of the generated   *)
(* file that yield known diagnostics:                                      *)
(*   E  rule "re" (function/arguments)          default ERROR              *)
(*   W  rule "rw" (subroutine/boilerplate-macro) default WARNING, twice    *)
(*      (two lifecycle subroutines without their macro)                    *)
(*   I  rule "ri" (error-statement/code)        default INFO               *)
(*   X  rule "rx" (function/argument-type) ERROR, under falco-ignore-next-line *)
(* main: "vcl" | "syntax" (syntax error) | "snip_scope" | "snip_noscope"   *)
(* incs: sequence of include statements, each [kind, at]:                  *)
(*   kind "ok" | "diag" (module holds one E) | "syntax" (module has a      *)
(*        syntax error) | "missing" | "nest" (a good module whose first    *)
(*        statement includes a module with a syntax error)                 *)
(*   at   "root" (include at root level, module = declarations) |          *)
(*        "sub" (include inside vcl_recv, module = statement list)         *)
(* Two includes in every order exercise "any one failure suffices".        *)
(***************************************************************************)
DiagKinds == {"E", "W", "I", "X"}
IncKinds == {"ok", "diag", "syntax", "missing", "nest"}
Incs == { [kind |-> k, at |-> a] : k \in IncKinds, a \in {"root", "sub"} }
\* kind "again" (second include only): the module of the FIRST include is included once more, at `at`.  A module is
\* written for the position kind of its first include (declarations for root, statements for sub): including it in
\* the other kind of position is a syntax error there; twice at root level declares its subroutine twice.
Agains == { [kind |-> "again", at |-> a] : a \in {"root", "sub"} }
\* more statement-level positions of an include statement in the main file: inside an if block, an else block, a
\* switch case of vcl_recv ("ifblock", "elseblock", "case"); in a statement-only main ("snip_scope") at its top
\* level ("top") or in an if / else block.  The module is a statement list in all of them.
\* "deep" kinds: the included statement module holds `if (..) { include "inner"; }` (.._if) or has the include in the
\* else block (.._else), and the INNER module has a syntax error / one ERROR / one WARNING (rule "rv", deprecated).
\* Whatever the depth and the block, the verdict is that of the program with the modules written in place.
DeepKinds == {"deep_syntax_if", "deep_syntax_else", "deep_diag_if", "deep_diag_else", "deep_warn_if", "deep_warn_else"}
NewIncs == { [kind |-> k, at |-> a] : k \in {"ok", "diag", "syntax", "missing"}, a \in {"ifblock", "elseblock", "case"} }
           \cup { [kind |-> k, at |-> a] : k \in DeepKinds, a \in {"sub", "ifblock"} }
SnipIncs == { [kind |-> k, at |-> a] : k \in {"ok", "diag", "syntax", "missing", "deep_syntax_if", "deep_diag_else", "deep_warn_if"},
                                       a \in {"top", "ifblock", "elseblock"} }
OkIncs == { [kind |-> "ok", at |-> "root"], [kind |-> "ok", at |-> "sub"] }
\* layout of the lines that carry the E / I / X statements (incs = <<>> only): the diagnostic's token at the start of a
\* short line ("plain"), right of a {JSON"..."JSON} long string, after tabs, beyond column 300, on a continuation line
Layouts == {"plain", "longstr", "tab", "wide", "multi"}
Programs ==
  { [main |-> "vcl", diags |-> D, incs |-> i, layout |-> "plain"] : D \in SUBSET DiagKinds, i \in {<<>>} \cup { <<x>> : x \in Incs } }
  \cup { [main |-> "vcl", diags |-> D, incs |-> <<>>, layout |-> l] : D \in (SUBSET DiagKinds) \ {{}, {"W"}}, l \in Layouts \ {"plain"} }
  \cup { [main |-> "vcl", diags |-> D, incs |-> <<x, y>>, layout |-> "plain"] : D \in {{}, {"E"}}, x \in Incs, y \in Incs }
  \cup { [main |-> "vcl", diags |-> D, incs |-> <<x, y>>, layout |-> "plain"] :
            D \in {{}, {"E"}}, x \in { z \in Incs : z.kind \in {"ok", "diag"} }, y \in Agains }
  \cup { [main |-> "vcl", diags |-> D, incs |-> <<x>>, layout |-> "plain"] : D \in {{}, {"E"}, DiagKinds}, x \in NewIncs }
  \cup { [main |-> "vcl", diags |-> {}, incs |-> i, layout |-> "plain"] :
            i \in { <<x, y>> : x \in NewIncs, y \in OkIncs } \cup { <<y, x>> : x \in NewIncs, y \in OkIncs } }
  \cup { [main |-> "snip_scope", diags |-> D, incs |-> <<x>>, layout |-> "plain"] : D \in {{}, {"E"}}, x \in SnipIncs }
  \cup { [main |-> "syntax", diags |-> {}, incs |-> i, layout |-> "plain"] : i \in {<<>>, << [kind |-> "ok", at |-> "root"] >>} }
  \cup { [main |-> m, diags |-> D, incs |-> <<>>, layout |-> "plain"] : m \in {"snip_scope", "snip_noscope"}, D \in SUBSET {"E", "X"} }

RuleNames == {"re", "rw", "ri", "rx", "rs", "rm", "rd", "rv"}   \* rs = snippet-scope-required, rm = include/module-load-failed, rd = subroutine/duplicated
Levels == {"ERROR", "WARNING", "INFO", "IGNORE"}
NoOv == [r \in RuleNames |-> "-"]
\* override settings of .falco.yml (linter.rules); "BOGUS" is an invalid level, which falco skips with a notice
Overrides ==
  { NoOv,
    [NoOv EXCEPT !["rw"] = "ERROR"],
    [NoOv EXCEPT !["rw"] = "WARNING"],
    [NoOv EXCEPT !["rw"] = "INFO"],
    [NoOv EXCEPT !["rw"] = "IGNORE"],
    [NoOv EXCEPT !["re"] = "IGNORE"],
    [NoOv EXCEPT !["re"] = "WARNING"],
    [NoOv EXCEPT !["ri"] = "ERROR"],
    [NoOv EXCEPT !["rw"] = "IGNORE", !["ri"] = "IGNORE"],
    [NoOv EXCEPT !["re"] = "INFO", !["rw"] = "INFO"],
    [NoOv EXCEPT !["re"] = "BOGUS"],
    [NoOv EXCEPT !["rs"] = "WARNING", !["rm"] = "WARNING"],
    [NoOv EXCEPT !["rx"] = "ERROR", !["re"] = "ERROR"] }
\* flags: json; verbosity 0/1/2 given on the command line (-v / -vv) or in .falco.yml (linter.verbose); -generated
Flags ==
  { [json |-> j, verb |-> v, vsrc |-> s, generated |-> g] :
      j \in BOOLEAN, v \in 0..2, s \in {"cli", "yaml"}, g \in BOOLEAN }
WellFormedFlags(f) == f.verb = 0 => f.vsrc = "cli"
(***************************************************************************)
(* What the linter reports for a program (sequence of [rule, sev, file]).  *)
(* This is the contract of the concretiser, checked by the replay on the   *)
(* JSON document; it is not the subject of C04.                            *)
(***************************************************************************)
SetToSeq(X) == LET RECURSIVE F(_) F(Y) == IF Y = {} THEN <<>> ELSE LET y == CHOOSE z \in Y : TRUE IN <<y>> \o F(Y \ {y}) IN F(X)
ModName(i) == IF i = 1 THEN "mod1" ELSE "mod2"
Default(k) == CASE k = "E" -> << [rule |-> "re", sev |-> "ERROR", file |-> "main"] >>
                [] k = "W" -> << [rule |-> "rw", sev |-> "WARNING", file |-> "main"], [rule |-> "rw", sev |-> "WARNING", file |-> "main"] >>
                [] k = "I" -> << [rule |-> "ri", sev |-> "INFO", file |-> "main"] >>
                [] OTHER   -> <<>>                       \* X is suppressed by its ignore comment
RECURSIVE Concat(_)
Concat(ss) == IF ss = <<>> THEN <<>> ELSE Head(ss) \o Concat(Tail(ss))
InnerName(i) == IF i = 1 THEN "mod1_inner" ELSE "mod2_inner"
IncErrors(p, i) == CASE p.incs[i].kind = "diag"    -> << [rule |-> "re", sev |-> "ERROR", file |-> ModName(i)] >>
                     [] p.incs[i].kind \in {"deep_diag_if", "deep_diag_else"} -> << [rule |-> "re", sev |-> "ERROR", file |-> InnerName(i)] >>
                     [] p.incs[i].kind \in {"deep_warn_if", "deep_warn_else"} -> << [rule |-> "rv", sev |-> "WARNING", file |-> InnerName(i)] >>
                     [] p.incs[i].kind = "missing" -> << [rule |-> "rm", sev |-> "ERROR", file |-> "main"] >>
                     \* the first module once more in the same kind of position: its statements are linted again,
                     \* at root level its subroutine is a duplicate declaration
                     [] p.incs[i].kind = "again" /\ p.incs[i].at = p.incs[1].at ->
                          (IF p.incs[1].kind = "diag" THEN << [rule |-> "re", sev |-> "ERROR", file |-> ModName(1)] >> ELSE <<>>)
                          \o (IF p.incs[i].at = "root" THEN << [rule |-> "rd", sev |-> "ERROR", file |-> ModName(1)] >> ELSE <<>>)
                     [] OTHER                      -> <<>>
LinterErrors(p) ==
  CASE p.main = "snip_noscope" -> << [rule |-> "rs", sev |-> "ERROR", file |-> "main"] >>
    [] p.main = "syntax"       -> <<>>
    [] OTHER -> Concat([i \in DOMAIN p.incs |-> IncErrors(p, i)]) \o Concat([j \in 1..4 |-> IF <<"E", "W", "I", "X">>[j] \in p.diags THEN Default(<<"E", "W", "I", "X">>[j]) ELSE <<>>])
\* lt.FatalError: some module that was loaded does not parse (it stays set whatever is loaded afterwards)
IncFatal(p) == \E i \in DOMAIN p.incs : \/ p.incs[i].kind \in {"syntax", "nest", "deep_syntax_if", "deep_syntax_else"}
                                        \/ (p.incs[i].kind = "again" /\ p.incs[i].at # p.incs[1].at)
SyntaxError(p) == p.main = "syntax" \/ (p.main \in {"vcl", "snip_scope"} /\ IncFatal(p))

Cells ==
  { [prog |-> p, ov |-> o, flags |-> f] : p \in Programs, o \in Overrides, f \in { x \in Flags : WellFormedFlags(x) } }
\* quick tier: the full flag product without overrides (-generated only at verbosity 0); with overrides only
\* {plain, -json} x {default, -vv}, and only where the program has a diagnostic of an overridden rule
Touches(c) == \E i \in DOMAIN LinterErrors(c.prog) : c.ov[LinterErrors(c.prog)[i].rule] # "-"
OnlyRw(c) == c.ov # NoOv /\ \A r \in RuleNames \ {"rw"} : c.ov[r] = "-"
Sparse(c) ==
  IF Len(c.prog.incs) = 2 \/ (Len(c.prog.incs) = 1 /\ (c.prog.incs[1].at # "root" \/ c.prog.incs[1].kind = "nest"))
  THEN c.ov = NoOv /\ c.flags.verb = 0 /\ ~c.flags.generated
  ELSE IF c.prog.layout # "plain"
  THEN \* where a diagnostic is DISPLAYED depends on the verbosity and on its effective level
       /\ c.flags.vsrc = "cli" /\ ~c.flags.generated
       /\ c.ov \in {NoOv, [NoOv EXCEPT !["re"] = "WARNING"]}
  ELSE IF c.flags.generated /\ c.ov # NoOv
  THEN \* -generated against a configured level of exactly the rule it ignores (command line over configuration file)
       OnlyRw(c) /\ c.flags.verb = 0 /\ "W" \in c.prog.diags /\ c.prog.incs = <<>>
  ELSE IF c.ov = NoOv THEN (c.flags.generated => c.flags.verb = 0)
  ELSE /\ c.flags.vsrc = "cli" /\ c.flags.verb \in {0, 2}
       /\ Touches(c)
\* thorough tier: everything, except that two-include programs take two override settings and the command-line flags only
NewShape(p) == \E i \in DOMAIN p.incs : p.incs[i].at \notin {"root", "sub"} \/ p.incs[i].kind \in DeepKinds
Dense(c) == /\ NewShape(c.prog) => (c.ov \in {NoOv, [NoOv EXCEPT !["re"] = "WARNING"]} /\ c.flags.vsrc = "cli" /\ ~c.flags.generated)
            /\ Len(c.prog.incs) = 2 => (c.ov \in {NoOv, [NoOv EXCEPT !["rs"] = "WARNING", !["rm"] = "WARNING"]}
                                        /\ c.flags.vsrc = "cli" /\ ~c.flags.generated)
            /\ c.prog.layout # "plain" => (c.flags.vsrc = "cli" /\ ~c.flags.generated
                                          /\ c.ov \in {NoOv, [NoOv EXCEPT !["re"] = "WARNING"], [NoOv EXCEPT !["ri"] = "ERROR"],
                                                       [NoOv EXCEPT !["re"] = "INFO", !["rw"] = "INFO"]})

(***************************************************************************)
(* REQUIREMENT                                                             *)
(***************************************************************************)
\* effective override map: -generated makes subroutine/boilerplate-macro IGNORE (config.New: generated VCL has no
\* macros), and as a command-line argument it wins over the level .falco.yml gives that rule (docs/configuration.md:
\* "falco cascades each setting from the order of Default Setting -> Configuration File -> CLI Arguments")
EffOv(c) == IF c.flags.generated THEN [c.ov EXCEPT !["rw"] = "IGNORE"] ELSE c.ov
Effective(d, ov) == IF ov[d.rule] \in Levels THEN ov[d.rule] ELSE d.sev
CountOf(seq, ov, lvl) == Cardinality({ i \in DOMAIN seq : Effective(seq[i], ov) = lvl })
ReqCounts(c) == LET ds == LinterErrors(c.prog) IN
                [e |-> CountOf(ds, EffOv(c), "ERROR"), w |-> CountOf(ds, EffOv(c), "WARNING"), i |-> CountOf(ds, EffOv(c), "INFO")]
ReqExit(c) == IF SyntaxError(c.prog) \/ ReqCounts(c).e > 0 THEN 1 ELSE 0
\* Counts are only defined when the file could be linted: a syntax error is a verdict of its own.
ReqCountsDefined(c) == ~SyntaxError(c.prog)

(***************************************************************************)
(* MECHANISM                                                               *)
(***************************************************************************)
VARIABLES cell,      \* the cell (constant along the behaviour)
          pc,
          todo,      \* lt.Errors still to be counted
          errors, warnings, infos,     \* Runner.errors / warnings / infos
          parseErrs, \* len(Runner.parseErrors)     (filled in JSON mode only)
          jsonLint,  \* entries in Runner.lintErrors (filled in JSON mode only)
          printed,   \* diagnostic blocks written to stderr, per level; parse = parse-error blocks
          runErr,    \* error returned by Runner.run
          summary,   \* summary line written?
          doc,       \* JSON document written?
          verdict,   \* closing message: "great" | "good" | "warnings" | "-"
          exit       \* exit status, 9 = still running
vars == <<cell, pc, todo, errors, warnings, infos, parseErrs, jsonLint, printed, runErr, summary, doc, verdict, exit>>

Json == cell.flags.json
Level == cell.flags.verb
Ov == EffOv(cell)

Init ==
  /\ cell \in (IF Full THEN { c \in Cells : Dense(c) } ELSE { c \in Cells : Sparse(c) })
  /\ pc = "parse_main" /\ todo = <<>>
  /\ errors = 0 /\ warnings = 0 /\ infos = 0 /\ parseErrs = 0 /\ jsonLint = 0
  /\ printed = [e |-> 0, w |-> 0, i |-> 0, parse |-> 0]
  /\ runErr = FALSE /\ summary = FALSE /\ doc = FALSE /\ verdict = "-" /\ exit = 9

\* Runner.run: parseVCL(main).  A syntax error is stored for the JSON document or printed; run returns ErrParser.
ParseMain ==
  /\ pc = "parse_main"
  /\ IF cell.prog.main = "syntax"
     THEN /\ parseErrs' = IF Json THEN 1 ELSE 0
          /\ printed' = IF Json THEN printed ELSE [printed EXCEPT !.parse = 1]
          /\ runErr' = TRUE /\ pc' = "run_return"
     ELSE /\ pc' = "lint" /\ UNCHANGED <<parseErrs, printed, runErr>>
  /\ UNCHANGED <<cell, todo, errors, warnings, infos, jsonLint, summary, doc, verdict, exit>>

\* linter.Lint; lt.FatalError (syntax error in an included module) -> stored or printed, ErrParser,
\* and lt.Errors is dropped without being counted
Lint ==
  /\ pc = "lint"
  /\ IF cell.prog.main \in {"vcl", "snip_scope"} /\ IncFatal(cell.prog)
     THEN /\ parseErrs' = IF Json THEN 1 ELSE 0
          /\ printed' = IF Json THEN printed ELSE [printed EXCEPT !.parse = 1]
          /\ runErr' = TRUE /\ pc' = "run_return" /\ UNCHANGED todo
     ELSE /\ todo' = LinterErrors(cell.prog) /\ pc' = "count"
          /\ UNCHANGED <<parseErrs, printed, runErr>>
  /\ UNCHANGED <<cell, errors, warnings, infos, jsonLint, summary, doc, verdict, exit>>

\* the loop over lt.Errors: override, store for JSON unless IGNORE, printLinterError (counts, prints by level)
Count ==
  /\ pc = "count" /\ todo # <<>>
  /\ LET d == Head(todo)
         sev == Effective(d, Ov)
     IN /\ jsonLint' = IF Json /\ sev # "IGNORE" THEN jsonLint + 1 ELSE jsonLint
        /\ errors'   = IF sev = "ERROR" THEN errors + 1 ELSE errors
        /\ warnings' = IF sev = "WARNING" THEN warnings + 1 ELSE warnings
        /\ infos'    = IF sev = "INFO" THEN infos + 1 ELSE infos
        /\ printed'  = IF Json THEN printed
                       ELSE CASE sev = "ERROR"                  -> [printed EXCEPT !.e = @ + 1]
                              [] sev = "WARNING" /\ Level >= 1  -> [printed EXCEPT !.w = @ + 1]
                              [] sev = "INFO" /\ Level >= 2     -> [printed EXCEPT !.i = @ + 1]
                              [] OTHER                          -> printed
  /\ todo' = Tail(todo)
  /\ UNCHANGED <<cell, pc, parseErrs, runErr, summary, doc, verdict, exit>>
CountDone ==
  /\ pc = "count" /\ todo = <<>> /\ pc' = "run_return"
  /\ UNCHANGED <<cell, todo, errors, warnings, infos, parseErrs, jsonLint, printed, runErr, summary, doc, verdict, exit>>

\* Runner.Run: `err != nil && !Json` -> error to runLint -> ErrExit; in JSON mode the result is returned and
\* remembers the error (so that the status fails after the document is written)
RunReturn ==
  /\ pc = "run_return"
  /\ IF runErr /\ ~Json
     THEN exit' = 1 /\ pc' = "done"
     ELSE pc' = "report" /\ UNCHANGED exit
  /\ UNCHANGED <<cell, todo, errors, warnings, infos, parseErrs, jsonLint, printed, runErr, summary, doc, verdict>>

\* runLint: JSON document, summary line, status, closing message
Report ==
  /\ pc = "report"
  /\ doc' = Json /\ summary' = TRUE
  /\ IF errors > 0 \/ runErr
     THEN exit' = 1 /\ verdict' = "-"
     ELSE /\ exit' = 0
          /\ verdict' = IF warnings > 0 THEN "warnings" ELSE IF infos > 0 THEN "good" ELSE "great"
  /\ pc' = "done"
  /\ UNCHANGED <<cell, todo, errors, warnings, infos, parseErrs, jsonLint, printed, runErr>>

Next == ParseMain \/ Lint \/ Count \/ CountDone \/ RunReturn \/ Report
Spec == Init /\ [][Next]_vars /\ WF_vars(Next)

Done == pc = "done"
(***************************************************************************)
(* mechanism |= requirement                                                *)
(***************************************************************************)
ExitOK   == Done => exit = ReqExit(cell)
CountsOK == (Done /\ summary /\ ReqCountsDefined(cell)) =>
              [e |-> errors, w |-> warnings, i |-> infos] = ReqCounts(cell)
\* a "looks great / good" message is never written next to a failing status
VerdictOK == Done => ((verdict # "-") => exit = 0)
\* what -json adds is a document, what -v adds is printing: neither moves a counter
Terminates == <>Done

Behaviour ==
  [prog |-> [main |-> cell.prog.main, diags |-> SetToSeq(cell.prog.diags), incs |-> cell.prog.incs, layout |-> cell.prog.layout],
   ov |-> cell.ov, flags |-> cell.flags, linter |-> LinterErrors(cell.prog),
   reqExit |-> ReqExit(cell), reqCounts |-> ReqCounts(cell), reqCountsDefined |-> ReqCountsDefined(cell),
   exit |-> exit, summary |-> summary, doc |-> doc, verdict |-> verdict,
   counts |-> [e |-> errors, w |-> warnings, i |-> infos],
   parseErrs |-> parseErrs, jsonLint |-> jsonLint, printed |-> printed]
EmitInv == Done => PrintT(<<"BEHAVIOUR", ToJson(Behaviour)>>)
=============================================================================
