SPECIFICATION Spec
CONSTANTS
  Decls = {"acl", "table", "backend", "penaltybox", "ratecounter"}
  NRoots = 2
  NUsers = 2
  MaxEdges = 8
  Sample = 0
INVARIANTS
  Confluent
  OutMultiset
  EmitInv
PROPERTIES
  Terminates
  Monotone
CHECK_DEADLOCK FALSE
