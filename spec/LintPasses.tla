----------------------------- MODULE LintPasses -----------------------------
(***************************************************************************)
(* The order-sensitive parts of the linter (property C11, determinism):    *)
(*                                                                         *)
(*  (ii) inferSubroutineScopes (linter/scope_inference.go): scopes flow    *)
(*       from callers to callees along the call graph until nothing        *)
(*       changes; the Go code sweeps `range graph` (random map order)      *)
(*       repeatedly.  Here ANY enabled edge may fire next, which covers    *)
(*       every map order and every sweep.  Requirement: the result does    *)
(*       not depend on the order (confluence) - it is the least fixed      *)
(*       point - and the iteration ends.                                   *)
(*  (i)  the post passes lintUnused* (linter/linter.go): each ranges over  *)
(*       a map of declarations and reports the unused ones.  Here the      *)
(*       next declaration is picked nondeterministically.  Requirement:    *)
(*       the multiset of diagnostics does not depend on the order.         *)
(*                                                                         *)
(* A program = a call graph over the lifecycle subroutines vcl_recv,       *)
(* vcl_deliver (known scopes) and user subroutines u1..uN, some of which   *)
(* carry an explicit scope annotation (never modified by inference), plus  *)
(* a set of unused root declarations.  Recursion (cycles, self calls),     *)
(* unreachable and uncalled subroutines are all in the enumeration.        *)
(* The concretiser gives every user subroutine scope-restricted statements *)
(* (error, restart, esi, synthetic, set beresp.*, set resp.*, return), so  *)
(* the inferred scopes show in its diagnostics.                            *)
(* Duplicated declarations (one name declared twice, also across kinds:    *)
(* plain / functional subroutine, acl, table, backend, director) are added *)
(* by the concretiser to the permuted declaration blocks; the model's      *)
(* statement about them is only the relational one: order independence.    *)
(***************************************************************************)
EXTENDS Naturals, Sequences, FiniteSets, TLC, Json, Randomization

CONSTANTS Decls,      \* kinds of unused root declarations a program may carry (post passes), e.g. {"acl", "table"}
          NRoots,     \* lifecycle entry points: 2 = vcl_recv, vcl_deliver; 3 = also vcl_fetch
          NUsers,     \* number of user subroutines (<= 6)
          MaxEdges,   \* call statements in the whole program
          Sample      \* 0: every graph; n > 0: n random graphs (seeded)

Roots == {"vcl_recv", "vcl_deliver"} \cup (IF NRoots >= 3 THEN {"vcl_fetch"} ELSE {})
Users == { u \in {"u1", "u2", "u3", "u4", "u5", "u6"} : \E k \in 1..NUsers : u = <<"u1", "u2", "u3", "u4", "u5", "u6">>[k] }
Subs == Roots \cup Users
Scopes == {"RECV", "DELIVER", "FETCH"}
RootScope(s) == IF s = "vcl_recv" THEN {"RECV"} ELSE IF s = "vcl_deliver" THEN {"DELIVER"} ELSE {"FETCH"}
AllEdges == Subs \X Users
\* (the post-pass part keeps the emission ORDER in the state: 5 kinds + 3 uncalled subroutines are already 10^5 states per program)

\* (operators with a parameter: TLC evaluates constant definitions without parameters eagerly, sampled runs must not pay for them)
Graphs(k) == { E \in SUBSET AllEdges : Cardinality(E) <= k }
Programs(k) == { [edges |-> E, explicit |-> X, unused |-> D] : E \in Graphs(k), X \in SUBSET Users, D \in {{}, Decls} }

VARIABLES prog,
          scopes,     \* Subroutine.Scopes
          phase,      \* "infer" -> "post" -> "done"
          pending,    \* declarations the post passes have not visited yet
          out         \* diagnostics of the post passes, in emission order
vars == <<prog, scopes, phase, pending, out>>

Init0(p) == [s \in Subs |-> IF s \in Roots THEN RootScope(s) ELSE IF s \in p.explicit THEN {"FETCH"} ELSE {}]
Init ==
  /\ prog \in (IF Sample = 0 THEN Programs(MaxEdges)
               ELSE { [edges |-> E, explicit |-> RandomElement(SUBSET Users), unused |-> RandomElement({{}, Decls})]
                      : E \in { RandomSubset(3 + (i % (MaxEdges - 2)), AllEdges) : i \in 1..Sample } })
  /\ scopes = Init0(prog)
  /\ phase = "infer" /\ pending = {} /\ out = <<>>

\* one assignment `calleeSub.Scopes = newScopes` of the propagation loop
CanFlow(e) == scopes[e[1]] # {} /\ e[2] \notin prog.explicit /\ ~(scopes[e[1]] \subseteq scopes[e[2]])
Flow == /\ phase = "infer"
        /\ \E e \in prog.edges : CanFlow(e) /\ scopes' = [scopes EXCEPT ![e[2]] = @ \cup scopes[e[1]]]
        /\ UNCHANGED <<prog, phase, pending, out>>
\* a sweep without change ends the loop
InferDone == /\ phase = "infer" /\ \A e \in prog.edges : ~CanFlow(e)
             /\ phase' = "post"
             /\ pending' = prog.unused \cup { u \in Users : \A c \in Subs : <<c, u>> \notin prog.edges }
             /\ UNCHANGED <<prog, scopes, out>>
\* lintUnused*: next entry of the map in whatever order Go yields it
Post == /\ phase = "post" /\ pending # {}
        /\ \E d \in pending : pending' = pending \ {d} /\ out' = Append(out, d)
        /\ UNCHANGED <<prog, scopes, phase>>
PostDone == /\ phase = "post" /\ pending = {} /\ phase' = "done"
            /\ UNCHANGED <<prog, scopes, pending, out>>
Next == Flow \/ InferDone \/ Post \/ PostDone
Spec == Init /\ [][Next]_vars /\ WF_vars(Next)

(***************************************************************************)
(* requirement                                                             *)
(***************************************************************************)
\* least fixed point, computed without any notion of order
RECURSIVE Lfp(_, _, _)
Lfp(p, sc, n) ==
  IF n = 0 THEN sc
  ELSE Lfp(p, [s \in Subs |-> IF s \in Users \ p.explicit
                               THEN sc[s] \cup UNION { sc[c] : c \in { x \in Subs : <<x, s>> \in p.edges } }
                               ELSE sc[s]], n - 1)
Fixpoint(p) == Lfp(p, Init0(p), Cardinality(Users) + 1)
Confluent == phase # "infer" => scopes = Fixpoint(prog)
Monotone == [][\A s \in Subs : scopes[s] \subseteq scopes'[s]]_vars
Terminates == <>(phase = "done")
Uncalled(p) == { u \in Users : \A c \in Subs : <<c, u>> \notin p.edges }
OutMultiset == phase = "done" => /\ Len(out) = Cardinality(prog.unused \cup Uncalled(prog))
                                 /\ { out[i] : i \in DOMAIN out } = prog.unused \cup Uncalled(prog)

\* subroutines that can reach a cycle of calls (detectRecursion reports exactly these)
RECURSIVE ReachFrom(_, _, _)
ReachFrom(p, S, n) == IF n = 0 THEN S ELSE ReachFrom(p, S \cup { e[2] : e \in { x \in p.edges : x[1] \in S } }, n - 1)
Callees(p, s) == { e[2] : e \in { x \in p.edges : x[1] = s } }
OnCycle(p, s) == s \in ReachFrom(p, Callees(p, s), Cardinality(Subs))
ReachesCycle(p) == { s \in Subs : \E t \in ReachFrom(p, {s}, Cardinality(Subs)) : OnCycle(p, t) }

SetToSeq(X) == LET RECURSIVE F(_) F(Y) == IF Y = {} THEN <<>> ELSE LET y == CHOOSE z \in Y : TRUE IN <<y>> \o F(Y \ {y}) IN F(X)
Behaviour == [kind |-> "passes",
              edges |-> SetToSeq(prog.edges), explicit |-> SetToSeq(prog.explicit), unused |-> SetToSeq(prog.unused),
              users |-> SetToSeq(Users), roots |-> SetToSeq(Roots),
              scopes |-> [s \in Users |-> SetToSeq(Fixpoint(prog)[s])],
              unrecognized |-> SetToSeq({ u \in Users : Fixpoint(prog)[u] = {} }),
              recursive |-> SetToSeq(ReachesCycle(prog)),
              uncalled |-> SetToSeq(Uncalled(prog)),
              deterministic |-> TRUE]
\* one line per program, not per interleaving: printed on the branch whose post pass ran in the canonical order
EmitInv == (phase = "done" /\ out = SetToSeq(prog.unused \cup Uncalled(prog))) => PrintT(<<"BEHAVIOUR", ToJson(Behaviour)>>)
=============================================================================
