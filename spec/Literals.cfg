SPECIFICATION Spec
CONSTANTS
  EscLen = 2
INVARIANTS
  MechMeetsReq
  EscapeLaws
  Emit
CHECK_DEADLOCK FALSE
