------------------------------ MODULE Literals ------------------------------
(***************************************************************************)
(* Literal values (property C02: "escapes decode only in double-quoted      *)
(* strings and numeric literals keep their exact value").                   *)
(*                                                                         *)
(* TLC has 32-bit integers, no reals and atomic strings, so                 *)
(*  - a numeric literal is a sequence of one-character strings; INT64       *)
(*    boundaries are compared and hexadecimal is converted on decimal digit *)
(*    sequences (school arithmetic);                                        *)
(*  - a float's value is its shortest decimal text, obtained exactly by     *)
(*    moving the point (decimal exponent) or multiplying by 2 / by 5        *)
(*    (binary exponent) - valid for the short literals enumerated here;     *)
(*  - a string value is a sequence of bytes.                                *)
(*                                                                         *)
(* REQUIREMENT (docs/parser.md "Numeric Literals", the property text):      *)
(*   IntReq / FloatReq / RTimeReq / the escape laws EscReq.                 *)
(* MECHANISM: IntMech (ParseInteger: strconv.ParseInt, then the ParseUint   *)
(*   2^63-under-minus exception), Decode (decodeStringEscapes as a          *)
(*   character state machine: utf8Escape / codePointEscape, stop at a NUL). *)
(* TLC checks the mechanism against the requirement on every enumerated     *)
(* case and prints the cases (source chunks, expected value or error) for   *)
(* replay through the real lexer + parser.                                  *)
(***************************************************************************)
EXTENDS Naturals, Sequences, TLC, Json

DecDigits == <<"0","1","2","3","4","5","6","7","8","9">>
HexVal(c) == CASE c = "0" -> 0 [] c = "1" -> 1 [] c = "2" -> 2 [] c = "3" -> 3 [] c = "4" -> 4 [] c = "5" -> 5 [] c = "6" -> 6
               [] c = "7" -> 7 [] c = "8" -> 8 [] c = "9" -> 9 [] c \in {"a","A"} -> 10 [] c \in {"b","B"} -> 11
               [] c \in {"c","C"} -> 12 [] c \in {"d","D"} -> 13 [] c \in {"e","E"} -> 14 [] c \in {"f","F"} -> 15 [] OTHER -> 99
IsHex(c) == HexVal(c) < 16
IsDec(c) == HexVal(c) < 10
RECURSIVE Flat(_)
Flat(cs) == IF cs = <<>> THEN <<>> ELSE Head(cs) \o Flat(Tail(cs))
RECURSIVE JoinS(_)
JoinS(seq) == IF seq = <<>> THEN "" ELSE Head(seq) \o JoinS(Tail(seq))

----------------------------------------------------------------------------
(* arithmetic on natural numbers written as sequences of decimal digit values, most significant first *)
RECURSIVE StripZ(_)
StripZ(d) == IF Len(d) > 1 /\ d[1] = 0 THEN StripZ(Tail(d)) ELSE d
\* d * m + a  for small m, a (m <= 16)
RECURSIVE MulAddR(_, _, _)
MulAddR(d, m, carry) == \* processes d from its last digit; returns the digits
  IF d = <<>> THEN (IF carry = 0 THEN <<>> ELSE IF carry < 10 THEN <<carry>> ELSE <<carry \div 10, carry % 10>>)
  ELSE LET x == d[Len(d)] * m + carry IN Append(MulAddR(SubSeq(d, 1, Len(d) - 1), m, x \div 10), x % 10)
MulAdd(d, m, a) == StripZ(LET r == MulAddR(d, m, a) IN IF r = <<>> THEN <<0>> ELSE r)
RECURSIVE LexLess(_, _)     \* d < e for digit sequences without leading zeros
LexLess(d, e) == IF d = <<>> THEN FALSE ELSE IF d[1] # e[1] THEN d[1] < e[1] ELSE LexLess(Tail(d), Tail(e))
Less(d, e) == IF Len(d) # Len(e) THEN Len(d) < Len(e) ELSE LexLess(d, e)
Leq(d, e) == d = e \/ Less(d, e)
DigitsOf(chars) == [i \in 1..Len(chars) |-> HexVal(chars[i])]
Text(d) == JoinS([i \in 1..Len(d) |-> DecDigits[d[i] + 1]])
RECURSIVE HexToDec(_, _)
HexToDec(hexchars, acc) == IF hexchars = <<>> THEN acc ELSE HexToDec(Tail(hexchars), MulAdd(acc, 16, HexVal(Head(hexchars))))
RECURSIVE Pow2Times(_, _)
Pow2Times(d, n) == IF n = 0 THEN d ELSE Pow2Times(MulAdd(d, 2, 0), n - 1)
RECURSIVE Pow5Times(_, _)
Pow5Times(d, n) == IF n = 0 THEN d ELSE Pow5Times(MulAdd(d, 5, 0), n - 1)

MaxInt64 == <<9,2,2,3,3,7,2,0,3,6,8,5,4,7,7,5,8,0,7>>
Two63    == <<9,2,2,3,3,7,2,0,3,6,8,5,4,7,7,5,8,0,8>>
MaxUint64 == <<1,8,4,4,6,7,4,4,0,7,3,7,0,9,5,5,1,6,1,5>>

----------------------------------------------------------------------------
(* INTEGER literals.  src = characters of the token the lexer cuts (decimal digits, or 0x / 0X + hex digits) *)
IsHexLit(src) == Len(src) > 2 /\ src[1] = "0" /\ src[2] \in {"x", "X"}
Magnitude(src) == IF IsHexLit(src) THEN HexToDec(SubSeq(src, 3, Len(src)), <<0>>) ELSE StripZ(DigitsOf(src))
WellFormedInt(src) == IF IsHexLit(src) THEN \A i \in 3..Len(src) : IsHex(src[i]) ELSE src # <<>> /\ \A i \in 1..Len(src) : IsDec(src[i])
Value(t) == [expect |-> "value", value |-> t]
Error == [expect |-> "error", value |-> ""]
Other == [expect |-> "other", value |-> ""]      \* not a literal of this kind: a parse error or some other expression
\* REQUIREMENT (docs): decimal, a leading zero is decimal; 0x/0X + hex digits; the magnitude must fit a signed 64-bit
\* value; the single exception is 2^63, accepted only as the operand of a unary minus (the node then holds INT_MIN)
IntReq(src, neg) ==
  IF ~WellFormedInt(src) THEN Error
  ELSE LET m == Magnitude(src) IN
       IF Leq(m, MaxInt64) THEN Value(Text(m))
       ELSE IF m = Two63 /\ neg THEN Value("-" \o Text(Two63))
       ELSE Error
\* MECHANISM (ParseInteger): base 16 only for len > 2 and a 0x prefix; strconv.ParseInt(digits, base, 64) fails on a
\* non-digit and out of range; then ParseUint succeeds up to 2^64-1 and the literal is taken iff it is 2^63 and the
\* previous token is MINUS (int64(u) wraps to INT_MIN)
IntMech(src, neg) ==
  LET hex == IsHexLit(src)
      digs == IF hex THEN SubSeq(src, 3, Len(src)) ELSE src
      syntax == digs # <<>> /\ \A i \in 1..Len(digs) : (IF hex THEN IsHex(digs[i]) ELSE IsDec(digs[i]))
      m == IF hex THEN HexToDec(digs, <<0>>) ELSE StripZ(DigitsOf(digs))
  IN IF ~syntax THEN Error
     ELSE IF Leq(m, MaxInt64) THEN Value(Text(m))                             \* ParseInt ok
     ELSE IF Leq(m, MaxUint64) /\ m = Two63 /\ neg THEN Value("-" \o Text(m)) \* ParseUint ok, u == 1<<63, negated
     ELSE Error
\* (a literal's source is given as a tuple of one-character strings)
IntSources == {
  <<"0">>, <<"7">>, <<"1","0","0">>, <<"0","7","5","5">>, <<"0","0","0","0","0","0","0","0","0","0","0","0","0","0","0","0","0","0","0","0","0","1">>,
  <<"9","2","2","3","3","7","2","0","3","6","8","5","4","7","7","5","8","0","7">>,
  <<"9","2","2","3","3","7","2","0","3","6","8","5","4","7","7","5","8","0","8">>,
  <<"9","2","2","3","3","7","2","0","3","6","8","5","4","7","7","5","8","0","9">>,
  <<"1","8","4","4","6","7","4","4","0","7","3","7","0","9","5","5","1","6","1","5">>,
  <<"1","8","4","4","6","7","4","4","0","7","3","7","0","9","5","5","1","6","1","6">>,
  <<"9","9","9","9","9","9","9","9","9","9","9","9","9","9","9","9","9","9","9","9","9","9">>,
  <<"0","x","5","a","5","a">>, <<"0","X","f","f">>, <<"0","x","0">>, <<"0","x","0","0","f","F">>,
  <<"0","x","7","F","F","F","F","F","F","F","F","F","F","F","F","F","F","F">>,
  <<"0","x","8","0","0","0","0","0","0","0","0","0","0","0","0","0","0","0">>,
  <<"0","x","8","0","0","0","0","0","0","0","0","0","0","0","0","0","0","1">>,
  <<"0","x","F","F","F","F","F","F","F","F","F","F","F","F","F","F","F","F">>,
  <<"0","x","1","0","0","0","0","0","0","0","0","0","0","0","0","0","0","0","0">>,
  <<"0","x","0","0","0","0","0","0","0","0","0","0","0","0","0","0","0","0","0","0","0","7">>,
  \* hexadecimal integers whose digits are the exponent markers of floats (e / E) must stay integers
  <<"0","x","e">>, <<"0","x","1","e">>, <<"0","X","E","F">>, <<"0","x","f","e","e","d">>, <<"0","x","E","0">>, <<"1","0">>, <<"0","0">>,
  <<"0","x">> }
IntCases == {[kind |-> "int", src |-> s, neg |-> n, r |-> IntReq(s, n), m |-> IntMech(s, n)] : s \in IntSources, n \in BOOLEAN}

----------------------------------------------------------------------------
(* FLOAT literals: [ip, fp, ex] = integer digits, fraction digits (characters), exponent (sign, digits value);      *)
(* decimal: value = ip.fp * 10^ex ; hexadecimal: value = ip.fp (base 16) * 2^ex.  The value is printed as the       *)
(* shortest decimal text without exponent (Go: strconv.FormatFloat(v, 'f', -1, 64)).                                 *)
RECURSIVE StripTrailZ(_)
StripTrailZ(d) == IF d # <<>> /\ d[Len(d)] = 0 THEN StripTrailZ(SubSeq(d, 1, Len(d) - 1)) ELSE d
RECURSIVE Zeros(_)
Zeros(n) == IF n = 0 THEN <<>> ELSE <<0>> \o Zeros(n - 1)
\* the decimal text of (digits d) / 10^scale
PointText(d, scale) ==
  LET dd == IF Len(d) <= scale THEN Zeros(scale - Len(d) + 1) \o d ELSE d
      ip == StripZ(SubSeq(dd, 1, Len(dd) - scale))
      fp == StripTrailZ(SubSeq(dd, Len(dd) - scale + 1, Len(dd)))
  IN IF fp = <<>> THEN Text(ip) ELSE Text(ip) \o "." \o Text(fp)
\* decimal float: digits ip ++ fp, scale = Len(fp) - ex (ex as a signed pair)
DecFloatText(ip, fp, neg, e) ==
  LET d == StripZ(DigitsOf(ip \o fp))
  IN IF neg THEN PointText(d, Len(fp) + e)
     ELSE IF e >= Len(fp) THEN PointText(d \o Zeros(e - Len(fp)), 0) ELSE PointText(d, Len(fp) - e)
\* hexadecimal float: M = ip ++ fp (base 16), value = M * 2^(ex - 4 * Len(fp))
HexFloatText(ip, fp, neg, e) ==
  LET m == HexToDec(ip \o fp, <<0>>)
      down == 4 * Len(fp) + (IF neg THEN e ELSE 0)       \* total negative binary exponent
      up == IF neg THEN 0 ELSE e
  IN IF up >= down THEN PointText(Pow2Times(m, up - down), 0)
     ELSE PointText(Pow5Times(m, down - up), down - up)      \* x / 2^k = x * 5^k / 10^k
F(src, text) == [kind |-> "float", src |-> src, neg |-> FALSE, r |-> text, m |-> text]
\* REQUIREMENT table (docs/parser.md "Floats"); a capital exponent marker does not make a float literal (what the
\* lexer cuts instead - a number followed by an identifier - is an error or another expression: Other)
FloatCases == {
  F(<<"1","0",".","0">>, Value(DecFloatText(<<"1","0">>, <<"0">>, FALSE, 0))),
  F(<<"1",".","5">>, Value(DecFloatText(<<"1">>, <<"5">>, FALSE, 0))),
  F(<<"0",".","2","5">>, Value(DecFloatText(<<"0">>, <<"2","5">>, FALSE, 0))),
  F(<<"1","e","3">>, Value(DecFloatText(<<"1">>, <<>>, FALSE, 3))),
  F(<<"1",".","5","e","3">>, Value(DecFloatText(<<"1">>, <<"5">>, FALSE, 3))),
  F(<<"1","e","-","3">>, Value(DecFloatText(<<"1">>, <<>>, TRUE, 3))),
  F(<<"1","e","+","3">>, Value(DecFloatText(<<"1">>, <<>>, FALSE, 3))),
  F(<<"1","2",".","5","e","-","2">>, Value(DecFloatText(<<"1","2">>, <<"5">>, TRUE, 2))),
  F(<<"1",".","2","5","e","1">>, Value(DecFloatText(<<"1">>, <<"2","5">>, FALSE, 1))),
  F(<<"0","x","1",".","8","p","3">>, Value(HexFloatText(<<"1">>, <<"8">>, FALSE, 3))),
  F(<<"0","x","A",".","B","p","3">>, Value(HexFloatText(<<"A">>, <<"B">>, FALSE, 3))),
  F(<<"0","x","1",".","8">>, Value(HexFloatText(<<"1">>, <<"8">>, FALSE, 0))),
  F(<<"0","x","1",".","8","p","-","1">>, Value(HexFloatText(<<"1">>, <<"8">>, TRUE, 1))),
  F(<<"0","x","1","p","4">>, Value(HexFloatText(<<"1">>, <<>>, FALSE, 4))),
  F(<<"0","X","f",".","f","p","0">>, Value(HexFloatText(<<"f">>, <<"f">>, FALSE, 0))),
  F(<<"1","E","3">>, Other), F(<<"0","x","1",".","8","P","3">>, Other), F(<<"1","e">>, Error) }
\* Generated float literals: every class of hexadecimal digit (decimal digit, a-d, the exponent-marker look-alikes e / E,
\* f) in the integer and in the fraction part, with and without a p exponent (signed, unsigned), 0x and 0X; decimal
\* literals with / without fraction and exponent.  Values computed exactly by HexFloatText / DecFloatText.
ExpChars(neg, e, mark) == IF e = 99 THEN <<>> ELSE <<mark>> \o (IF neg THEN <<"-">> ELSE <<>>) \o <<DecDigits[e + 1]>>
HexIPs == {<<"1">>, <<"e">>, <<"E">>, <<"f","e">>, <<"A">>, <<"0">>, <<"d","9">>}
HexFPs == {<<>>, <<"8">>, <<"e">>, <<"E">>, <<"4">>, <<"f","8">>, <<"c">>}
HexExps == {<<FALSE, 99>>, <<FALSE, 0>>, <<FALSE, 3>>, <<TRUE, 1>>, <<TRUE, 4>>}       \* 99 = no exponent written
\* a fraction is written iff there is a point; a literal without point and without exponent is an integer, not a float
GenHexFloats ==
  {F(<<"0", x>> \o ip \o (IF fp # <<>> THEN <<".">> ELSE <<>>) \o fp \o ExpChars(ex[1], ex[2], "p"),
     Value(HexFloatText(ip, fp, ex[1], IF ex[2] = 99 THEN 0 ELSE ex[2]))) :
     x \in {"x", "X"}, ip \in HexIPs, fp \in HexFPs, ex \in {e \in HexExps : TRUE}}
DecIPs == {<<"1">>, <<"1","2">>, <<"0">>}
DecFPs == {<<>>, <<"5">>, <<"2","5">>, <<"0">>}
DecExps == {<<FALSE, 99>>, <<FALSE, 0>>, <<FALSE, 3>>, <<TRUE, 2>>, <<FALSE, 1>>}
GenDecFloats ==
  {F(ip \o (IF fp # <<>> THEN <<".">> ELSE <<>>) \o fp \o ExpChars(ex[1], ex[2], "e"),
     Value(DecFloatText(ip, fp, ex[1], IF ex[2] = 99 THEN 0 ELSE ex[2]))) :
     ip \in DecIPs, fp \in DecFPs, ex \in DecExps}
IsFloatSrc(src) == \E i \in 1..Len(src) : src[i] = "." \/ src[i] = "p" \/ (src[i] = "e" /\ ~(Len(src) > 1 /\ src[2] \in {"x", "X"}))
GenFloatCases == {c \in GenHexFloats \cup GenDecFloats : IsFloatSrc(c.src)}
\* RTIME: only plain decimal literals take a unit; the value is the literal itself
R(src, text) == [kind |-> "rtime", src |-> src, neg |-> FALSE, r |-> text, m |-> text]
RTimeCases == {
  R(<<"1","0","0","m","s">>, Value("100ms")), R(<<"1",".","5","s">>, Value("1.5s")), R(<<"2","m">>, Value("2m")),
  R(<<"3","h">>, Value("3h")), R(<<"4","d">>, Value("4d")), R(<<"5","y">>, Value("5y")), R(<<"0","s">>, Value("0s")),
  R(<<"0","x","1","f","s">>, Other), R(<<"1","e","3","s">>, Other), R(<<"1","0","0","S">>, Other) }

----------------------------------------------------------------------------
(* STRING escapes.  A string body is a sequence of characters; the value is a sequence of bytes. *)
AsciiCode(c) == \* the characters the chunk alphabet uses outside escapes
  CASE c = "a" -> 97 [] c = "g" -> 103 [] c = "u" -> 117 [] c = "{" -> 123 [] c = "}" -> 125 [] c = "%" -> 37 [] c = " " -> 32
    [] c = "A" -> 65 [] c = "B" -> 66 [] c = "C" -> 67 [] c = "D" -> 68 [] c = "E" -> 69 [] c = "F" -> 70
    [] c = "b" -> 98 [] c = "c" -> 99 [] c = "d" -> 100 [] c = "e" -> 101 [] c = "f" -> 102
    [] IsDec(c) -> 48 + HexVal(c)
\* UTF-8 encoding of a code point (requirement level: the definition of UTF-8)
Utf8(cp) ==
  IF cp < 128 THEN <<cp>>
  ELSE IF cp < 2048 THEN <<192 + (cp \div 64), 128 + (cp % 64)>>
  ELSE IF cp < 65536 THEN <<224 + (cp \div 4096), 128 + ((cp \div 64) % 64), 128 + (cp % 64)>>
  ELSE <<240 + (cp \div 262144), 128 + ((cp \div 4096) % 64), 128 + ((cp \div 64) % 64), 128 + (cp % 64)>>
ValidCp(cp) == cp > 0 /\ cp <= 1114111 /\ ~(cp >= 55296 /\ cp <= 57343)
\* the code point a byte sequence encodes, 0 when it is not the UTF-8 encoding of a valid code point
Cont(b) == b >= 128 /\ b < 192
CpOf(bs) ==
  LET n == Len(bs)
      cp == CASE n = 1 -> bs[1]
              [] n = 2 -> (bs[1] - 192) * 64 + (bs[2] - 128)
              [] n = 3 -> (bs[1] - 224) * 4096 + (bs[2] - 128) * 64 + (bs[3] - 128)
              [] n = 4 -> (bs[1] - 240) * 262144 + (bs[2] - 128) * 4096 + (bs[3] - 128) * 64 + (bs[4] - 128)
  IN IF (\A i \in 2..n : Cont(bs[i])) /\ ValidCp(cp) /\ Utf8(cp) = bs THEN cp ELSE 0

\* MECHANISM: decodeStringEscapes.  Result [ok, bytes]; stop = a NUL (escape) ends the string there.
DOk(bs) == [ok |-> TRUE, bytes |-> bs]
DErr == [ok |-> FALSE, bytes |-> <<>>]
At(s, i) == IF i <= Len(s) THEN s[i] ELSE "EOS"
\* readByte at i: two hex digits -> [ok, v]
ReadByte(s, i) == IF IsHex(At(s, i)) /\ IsHex(At(s, i + 1)) THEN [ok |-> TRUE, v |-> HexVal(s[i]) * 16 + HexVal(s[i + 1])] ELSE [ok |-> FALSE, v |-> 0]
\* utf8Escape at i (just after "%"): returns [ok, stop, bytes, next]
Utf8Escape(s, i) ==
  LET b1 == ReadByte(s, i) IN
  IF ~b1.ok THEN [ok |-> FALSE, stop |-> FALSE, bytes |-> <<>>, next |-> i]
  ELSE LET n == IF b1.v < 128 THEN 1 ELSE IF b1.v >= 192 /\ b1.v < 224 THEN 2 ELSE IF b1.v >= 224 /\ b1.v < 240 THEN 3
                 ELSE IF b1.v >= 240 /\ b1.v < 248 THEN 4 ELSE 0
       IN IF n = 0 THEN [ok |-> FALSE, stop |-> FALSE, bytes |-> <<>>, next |-> i]            \* invalid leading byte
          ELSE IF n = 1 THEN [ok |-> TRUE, stop |-> b1.v = 0, bytes |-> <<b1.v>>, next |-> i + 2]
          ELSE LET more == [j \in 1..(n - 1) |-> IF At(s, i + 2 + 3 * (j - 1)) = "%" THEN ReadByte(s, i + 3 + 3 * (j - 1)) ELSE [ok |-> FALSE, v |-> 0]]
                   bs == <<b1.v>> \o [j \in 1..(n - 1) |-> more[j].v]
               IN IF \E j \in 1..(n - 1) : ~more[j].ok THEN [ok |-> FALSE, stop |-> FALSE, bytes |-> <<>>, next |-> i]
                  ELSE IF CpOf(bs) = 0 THEN [ok |-> FALSE, stop |-> FALSE, bytes |-> <<>>, next |-> i]   \* utf8.DecodeRune = RuneError
                  ELSE [ok |-> TRUE, stop |-> FALSE, bytes |-> bs, next |-> i + 2 + 3 * (n - 1)]
\* codePointEscape at i (just after "%u"): %uXXXX or %u{X..XXXXXX}
RECURSIVE HexRun(_, _, _)
HexRun(s, i, max) == IF max > 0 /\ IsHex(At(s, i)) THEN 1 + HexRun(s, i + 1, max - 1) ELSE 0
RECURSIVE HexNum(_, _, _)
HexNum(s, i, n) == IF n = 0 THEN 0 ELSE HexNum(s, i, n - 1) * 16 + HexVal(s[i + n - 1])
CodePointEscape(s, i) ==
  LET brace == At(s, i) = "{"
      st == IF brace THEN i + 1 ELSE i
      n == HexRun(s, st, IF brace THEN 6 ELSE 4)
      x == HexNum(s, st, n)
      bad == [ok |-> FALSE, stop |-> FALSE, bytes |-> <<>>, next |-> i]
  IN IF n < (IF brace THEN 1 ELSE 4) THEN bad
     ELSE IF brace /\ At(s, st + n) # "}" THEN bad
     ELSE IF x = 0 THEN [ok |-> TRUE, stop |-> TRUE, bytes |-> <<>>, next |-> st + n]
     ELSE IF ~ValidCp(x) THEN bad
     ELSE [ok |-> TRUE, stop |-> FALSE, bytes |-> Utf8(x), next |-> st + n + (IF brace THEN 1 ELSE 0)]
RECURSIVE DecodeFrom(_, _, _)
DecodeFrom(s, i, acc) ==
  IF i > Len(s) THEN DOk(acc)
  ELSE IF s[i] # "%" THEN DecodeFrom(s, i + 1, Append(acc, AsciiCode(s[i])))
  ELSE LET e == IF At(s, i + 1) = "u" THEN CodePointEscape(s, i + 2) ELSE Utf8Escape(s, i + 1) IN
       IF ~e.ok THEN DErr ELSE IF e.stop THEN DOk(acc) ELSE DecodeFrom(s, e.next, acc \o e.bytes)
Decode(s) == DecodeFrom(s, 1, <<>>)
Raw(s) == [i \in 1..Len(s) |-> AsciiCode(s[i])]

\* REQUIREMENT (escape laws): checked on every enumerated body
NoPercent(s) == \A i \in 1..Len(s) : s[i] # "%"
EscReq(s) ==
  LET d == Decode(s) IN
  /\ NoPercent(s) => d = DOk(Raw(s))                                   \* nothing but escapes is rewritten
  /\ d.ok => \A i \in 1..Len(d.bytes) : d.bytes[i] # 0                 \* a NUL never gets into a value
  /\ \A cp \in {65, 233, 8364, 128512} :                               \* the three spellings of one code point agree
       LET hex4 == IF cp = 65 THEN <<"0","0","4","1">> ELSE IF cp = 233 THEN <<"0","0","e","9">> ELSE <<"2","0","a","c">> IN
       (cp < 65536 /\ s = <<"%","u">> \o hex4) => d = DOk(Utf8(cp))

EscChunks == { <<"a">>, <<"%">>, <<"4","1">>, <<"4">>, <<"c","3">>, <<"%","a","9">>, <<"%","c","3","%","a","9">>,
  <<"%","e","2","%","8","2","%","a","c">>, <<"%","f","0","%","9","f","%","9","8","%","8","0">>, <<"%","e","2","%","8","2">>,
  <<"u">>, <<"0","0","4","1">>, <<"0","0","e">>, <<"9">>, <<"d","8","0","0">>, <<"u","{">>, <<"}">>, <<"1","F","6","0","0">>,
  <<"1","1","0","0","0","0">>, <<"0","0">>, <<"g">>, <<"%","c","0","%","a","f">>, <<"%","e","d","%","a","0","%","8","0">>,
  <<"%","f","f">>, <<"2","0","a","c">>,
  \* whole escapes as one chunk, so that two chunks already put something before / after a complete escape
  <<"%","4","1">>, <<"%","0","0">>, <<"%","u","0","0","4","1">>, <<"%","u","0","0","e","9">>, <<"%","u","2","0","a","c">>,
  <<"%","u","{","4","1","}">>, <<"%","u","{","1","F","6","0","0","}">>, <<"%","u","{","0","}">>, <<"%","u","{","d","8","0","0","}">>,
  <<"%","u","{","1","0","F","F","F","F","}">>, <<"%","u","{","0","0","0","0","4","1","}">> }
CONSTANT EscLen
RECURSIVE Seqs(_, _)
Seqs(S, n) == IF n = 0 THEN {<<>>} ELSE LET r == Seqs(S, n - 1) IN r \cup {Append(x, c) : x \in r, c \in S}
StrCase(chunks, long) ==
  LET s == Flat(chunks)
      d == IF long THEN DOk(Raw(s)) ELSE Decode(s)
  IN [kind |-> IF long THEN "longstring" ELSE "string", src |-> chunks, ok |-> d.ok, bytes |-> d.bytes, law |-> long \/ EscReq(s)]

----------------------------------------------------------------------------
VARIABLES stage, case
vars == <<stage, case>>
NumCases == IntCases \cup FloatCases \cup RTimeCases \cup GenFloatCases
Init == stage = 0 /\ case = <<>>
Next == \/ stage = 0 /\ stage' = 1 /\ case' \in ({<<"num">>} \cup {<<"str", c>> : c \in EscChunks} \cup {<<"str0">>})
        \/ stage = 1 /\ stage' = 2 /\ case[1] = "num" /\ case' \in NumCases
        \/ stage = 1 /\ stage' = 2 /\ case[1] = "str0" /\ case' \in {StrCase(<<>>, l) : l \in BOOLEAN}
        \/ stage = 1 /\ stage' = 2 /\ case[1] = "str"
           /\ case' \in {StrCase(<<case[2]>> \o x, l) : x \in Seqs(EscChunks, EscLen - 1), l \in BOOLEAN}
Spec == Init /\ [][Next]_vars

IsNum == stage = 2 /\ case.kind \in {"int", "float", "rtime"}
IsStr == stage = 2 /\ case.kind \in {"string", "longstring"}
MechMeetsReq == IsNum => case.m = case.r
EscapeLaws   == IsStr => case.law
Chunk(c) == JoinS(c)
Emit == stage = 2 =>
  PrintT(<<"BEHAVIOUR", ToJson(
     IF IsNum THEN [kind |-> case.kind, src |-> case.src, neg |-> case.neg, expect |-> case.m.expect, value |-> case.m.value,
                    bytes |-> <<>>, req |-> [ok |-> case.m = case.r]]
     ELSE [kind |-> case.kind, src |-> [i \in 1..Len(case.src) |-> Chunk(case.src[i])], neg |-> FALSE,
           expect |-> IF case.ok THEN "value" ELSE "error", value |-> "", bytes |-> case.bytes, req |-> [ok |-> case.law]])>>)
=============================================================================
