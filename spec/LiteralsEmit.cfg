SPECIFICATION Spec
CONSTANTS
  EscLen = 2
INVARIANTS
  Emit
CHECK_DEADLOCK FALSE
