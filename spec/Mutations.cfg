SPECIFICATION Spec
CONSTANTS
  Stride = 10
  Offset = 1
  MaxSteps = 1
INVARIANT Emit
CHECK_DEADLOCK FALSE
