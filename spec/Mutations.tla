----------------------------- MODULE Mutations -----------------------------
(***************************************************************************)
(* Input family (b) of property C01: valid programs (1..NumValid) and near  *)
(* misses (one per parser diagnostic) - one or two per                      *)
(* declaration and statement kind, every optional part present somewhere -  *)
(* as sequences of source tokens, and all their single-token mutations as   *)
(* actions: Truncate(i) (every proper prefix), Delete(i), Replace(i, t) for *)
(* every replacement token t, Insert(i, t) for the tokens that open         *)
(* something the lexer or the pump must close (pragma, C!, unterminated     *)
(* string / long string / comment, NUL).                                    *)
(* The specification does not predict tree or error for a mutant: the       *)
(* requirement is totality and located diagnostics, which C01Trace.tla      *)
(* evaluates on the recorded execution of each.                             *)
(* MaxSteps = 1: exactly the single mutations (enumerated in full); with    *)
(* MaxSteps > 1 mutations compose (a mutant is mutated again), explored by  *)
(* seeded simulation: damage that needs two faults to show.                 *)
(* Stride/Offset thin the replacements (quick tier: a seeded tenth) and,    *)
(* five times less, the insertions; Stride = 1 takes everything.            *)
(***************************************************************************)
EXTENDS Naturals, Sequences, TLC, Json

CONSTANTS Stride, Offset, MaxSteps

Programs == <<
  <<"acl", "a", "{", "\"10.0.0.0\"", "/", "8", ";", "!", "\"10.1.0.0\"", "/", "16", ";", "\"::1\"", ";", "}">>,
  <<"backend", "b", "{", ".host", "=", "\"h\"", ";", ".port", "=", "\"80\"", ";", ".connect_timeout", "=", "1s", ";", ".probe", "=", "{", ".request", "=", "\"GET / HTTP/1.1\"", "\"Host: x\"", ";", ".interval", "=", "5s", ";", "}", "}">>,
  <<"director", "d", "random", "{", ".quorum", "=", "50", "%", ";", "{", ".backend", "=", "b", ";", ".weight", "=", "1", ";", "}", "}">>,
  <<"table", "t", "STRING", "{", "\"a\"", ":", "\"b\"", ",", "\"c\"", ":", "\"d\"", ",", "}", "table", "u", "{", "\"k\"", ":", "v", "}">>,
  <<"penaltybox", "pb", "{", "}", "ratecounter", "rc", "{", "}", "import", "foo", ";", "include", "\"bar\"", ";">>,
  <<"sub", "vcl_recv", "{", "set", "req.http.A", "=", "\"a\"", "req.http.B", "+", "\"c\"", ";", "unset", "req.http.A", ";", "remove", "req.http.B", ";", "add", "resp.http.C", "=", "\"d\"", ";", "call", "f", ";", "call", "g", "(", ")", ";", "}">>,
  <<"sub", "vcl_deliver", "{", "esi", ";", "restart", ";", "log", "\"x\"", "req.url", ";", "synthetic", "\"s\"", ";", "synthetic.base64", "\"cw==\"", ";", "error", "503", "\"msg\"", ";", "error", ";", "return", "(", "lookup", ")", ";", "}">>,
  <<"sub", "f", "{", "declare", "local", "var.i", "INTEGER", ";", "set", "var.i", "+=", "1", ";", "set", "var.i", "<<=", "2", ";", "set", "var.i", "rol=", "3", ";", "set", "var.b", "||=", "true", ";", "set", "var.f", "=", "-1.5", ";", "set", "var.t", "=", "10ms", ";", "return", ";", "}">>,
  <<"sub", "g", "{", "if", "(", "req.http.A", "==", "\"a\"", "&&", "!", "req.http.B", "||", "req.url", "~", "\"^/x\"", ")", "{", "esi", ";", "}", "else", "if", "(", "a", "!=", "b", ")", "{", "restart", ";", "}", "elseif", "(", "a", ">", "1", ")", "{", "esi", ";", "}", "elsif", "(", "a", "<=", "2", ")", "{", "esi", ";", "}", "else", "{", "return", "(", "pass", ")", ";", "}", "}">>,
  <<"sub", "h", "{", "switch", "(", "req.http.A", ")", "{", "case", "\"a\"", ":", "esi", ";", "break", ";", "case", "~", "\"^b\"", ":", "esi", ";", "fallthrough", ";", "default", ":", "restart", ";", "break", ";", "}", "}">>,
  <<"sub", "k", "{", "goto", "done", ";", "{", "log", "\"in\"", ";", "}", "std.collect", "(", "req.http.A", ",", "\",\"", ")", ";", "done:", "}">>,
  <<"sub", "fn", "(", "STRING", "var.p", ",", "INTEGER", "var.q", ")", "BOOL", "{", "return", "var.p", "==", "\"x\"", ";", "}">>,
  <<"sub", "e", "{", "set", "req.http.X", "=", "if", "(", "req.http.A", ",", "\"y\"", ",", "\"n\"", ")", "{\"long\"}", "regsub", "(", "req.url", ",", "{R\"a\"R}", ",", "\"\"", ")", ";", "set", "var.i", "=", "0x1F", ";", "set", "var.f", "=", "1e3", ";", "}">>,
  <<"#", "lead", "\n", "sub", "c", "{", "//", "c1", "\n", "esi", ";", "/*", "c2", "*/", "}", "pragma", "optional_param", "geoip_opt_in", "true", ";", "C!", "W!">>
,
  \* every list production with no element: explicit empty parameter lists, empty bodies, empty argument lists
  <<"sub", "f", "(", ")", "{", "}", "sub", "g", "(", ")", "STRING", "{", "return", "\"x\"", ";", "}", "sub", "h", "(", "STRING", "var.a", ")", "{", "}", "acl", "e", "{", "}", "table", "e", "{", "}", "backend", "e", "{", "}", "director", "e", "random", "{", "}">>,
  <<"sub", "vcl_recv", "{", "if", "(", "a", ")", "{", "}", "else", "{", "}", "f", "(", ")", ";", "call", "f", "(", ")", ";", "{", "}", "switch", "(", "a", ")", "{", "case", "\"a\"", ":", "break", ";", "case", "~", "\"a\"", ":", "break", ";", "default", ":", "break", ";", "}", "}", "backend", "b", "{", ".probe", "=", "{", "}", "}", "director", "d", "random", "{", "{", "}", "}">>,
  \* case labels are expressions after their leading string / ~ ; two clauses of each kind, default between
  <<"sub", "s", "{", "switch", "(", "a", ")", "{", "case", "\"a\"", "\"b\"", ":", "break", ";", "case", "\"a\"", "+", "\"c\"", ":", "break", ";", "default", ":", "break", ";", "case", "~", "(", "\"x\"", ")", ":", "break", ";", "case", "~", "if", "(", "a", ",", "\"y\"", ",", "\"z\"", ")", ":", "break", ";", "case", "\"d\"", "==", "\"e\"", ":", "esi", ";", "fallthrough", ";", "case", "~", "f", "(", "a", ")", ":", "break", ";", "}", "}">>,
  \* near misses (programs 18..): one per diagnostic the parser can give that a single mutation of a valid program
  \* rarely produces - empty switch, duplicate label, two defaults, final fallthrough, clause without break, delimiter
  \* mismatch, integer overflow, bad escape, parenthesis mismatch, missing colon, statement outside a subroutine
  <<"sub", "s", "{", "switch", "(", "a", ")", "{", "}", "}">>,
  <<"sub", "s", "{", "switch", "(", "a", ")", "{", "case", "\"a\"", ":", "break", ";", "case", "\"a\"", ":", "break", ";", "}", "}">>,
  <<"sub", "s", "{", "switch", "(", "a", ")", "{", "default", ":", "break", ";", "default", ":", "break", ";", "}", "}">>,
  <<"sub", "s", "{", "switch", "(", "a", ")", "{", "case", "\"a\"", ":", "esi", ";", "fallthrough", ";", "}", "}">>,
  <<"sub", "s", "{", "switch", "(", "a", ")", "{", "case", "\"a\"", ":", "case", "~", "\"b\"", ":", "esi", ";", "break", ";", "default", ":", "}", "}">>,
  <<"sub", "s", "{", "set", "var.i", "=", "9223372036854775808", ";", "}">>,
  <<"sub", "s", "{", "set", "var.s", "=", "\"%zz\"", ";", "}">>,
  <<"sub", "s", "{", "set", "var.s", "=", "{AB\"x\"BA}", ";", "}">>,
  <<"sub", "s", "{", "return", "(", "lookup", ";", "}", "sub", "t", "{", "return", "lookup", ")", ";", "}", "sub", "u", "{", "switch", "(", "a", ")", "{", "case", "\"a\"", "break", ";", "}", "}">>,
  <<"set", "req.http.A", "=", "\"a\"", ";", "sub", "s", "{", "break", ";", "fallthrough", ";", "}", "sub", "f", "(", "STRING", ")", "{", "}", "sub", "g", "(", "STRING", "var.a", ",", ")", "{", "}">>
>>
NumValid == 17

Repl == <<"{", "}", "(", ")", ";", ",", ":", ".", "=", "==", "!", "~", "+", "-", "/", "%", "&&", "||", "|", "&", "*",
          "<<", ">>", "if", "else", "elseif", "sub", "acl", "backend", "table", "director", "set", "unset", "call",
          "return", "error", "restart", "switch", "case", "default", "break", "fallthrough", "include", "import",
          "declare", "goto", "pragma", "C!", "x", "1", "1.5", "2s", "\"s\"", "{\"ls\"}", "{\"unterminated",
          "\"unterminated", "/* unterminated", "# c", "NUL", "XFF", "U2", "\n",
          \* strings whose escapes are complete, incomplete, invalid or NUL (parser/string_escape.go)
          "\"%41\"", "\"%\"", "\"%u{\"", "\"%e2%82\"", "\"%u00\"", "\"a%00b\"", "\"%u{110000}\"", "\"%ud800\"", "{\"%41\"}",
          \* one token of every remaining type the lexer produces (all assignment and comparison operators, every
          \* literal spelling and RTIME unit, keywords, identifiers spelled like operators, delimited long strings)
          "+=", "-=", "*=", "/=", "%=", "|=", "&=", "^=", "<<=", ">>=", "rol=", "ror=", "&&=", "||=", "!=", "!~", "<", ">", "<=", ">=",
          "[", "]", "^", "rol", "ror", "true", "false", "3m", "4d", "5y", "6h", "7ms", "0x1F", "0X1f", "0x", "1e3", "1.5e-3", "0x1.8p3",
          "0x1.e", "{XY\"ls\"XY}", "{XY\"ls\"YX}", "elsif", "remove", "add", "log", "esi", "synthetic", "synthetic.base64", "penaltybox",
          "ratecounter", "W!", "req.http.Cookie:a", "x-*", "done:", "\"a\nb\"", "99999999999999999999", "0xFFFFFFFFFFFFFFFFF", "1e", "0x1p">>
Ins == <<"pragma", "C!", "{\"unterminated", "\"unterminated", "/* unterminated", "NUL", "# c">>

VARIABLES p, mut, at, with, toks, steps
vars == <<p, mut, at, with, toks, steps>>
Init == p = 0 /\ mut = "none" /\ at = 0 /\ with = "" /\ toks = <<>> /\ steps = 0
Prog(q) == Programs[q]
Pick(q)  == p = 0 /\ p' = q /\ mut' = "base" /\ at' = 0 /\ with' = "" /\ toks' = Prog(q) /\ steps' = 0
More == mut # "none" /\ steps < MaxSteps
Truncate(i) == More /\ mut' = "truncate" /\ at' = i /\ toks' = SubSeq(toks, 1, i) /\ steps' = steps + 1 /\ UNCHANGED <<p, with>>
Delete(i)   == More /\ mut' = "delete" /\ at' = i /\ steps' = steps + 1
               /\ toks' = SubSeq(toks, 1, i - 1) \o SubSeq(toks, i + 1, Len(toks)) /\ UNCHANGED <<p, with>>
Replace(i, r) == More /\ (i * Len(Repl) + r) % Stride = Offset /\ Repl[r] # toks[i]
                 /\ mut' = "replace" /\ at' = i /\ with' = Repl[r] /\ steps' = steps + 1
                 /\ toks' = [toks EXCEPT ![i] = Repl[r]] /\ UNCHANGED p
Insert(i, r)  == More /\ (i + r) % ((Stride + 4) \div 5) = Offset % ((Stride + 4) \div 5)
                 /\ mut' = "insert" /\ at' = i /\ with' = Ins[r] /\ steps' = steps + 1
                 /\ toks' = SubSeq(toks, 1, i - 1) \o <<Ins[r]>> \o SubSeq(toks, i, Len(toks)) /\ UNCHANGED p
Next == \/ \E q \in 1..Len(Programs) : Pick(q)
        \/ \E i \in 0..(Len(toks) - 1) : Truncate(i)
        \/ \E i \in 1..Len(toks) : Delete(i)
        \/ \E i \in 1..Len(toks), r \in 1..Len(Repl) : Replace(i, r)
        \/ \E i \in 1..(Len(toks) + 1), r \in 1..Len(Ins) : Insert(i, r)
Spec == Init /\ [][Next]_vars
Emit == mut # "none" =>
          PrintT(<<"BEHAVIOUR", ToJson([prog |-> p, valid |-> p <= NumValid, mut |-> mut, at |-> at, with |-> with, steps |-> steps, toks |-> toks])>>)
=============================================================================
