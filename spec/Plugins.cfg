SPECIFICATION Spec
CONSTANTS
  P = 3
  K = 2
  Fails = {}
  Nested = FALSE
  WaitFirst = TRUE
  Synchronised = TRUE
INVARIANTS
  AllReported
  NoneInvented
  EmitInv
PROPERTY Terminates
CHECK_DEADLOCK FALSE
