SPECIFICATION Spec
CONSTANTS
  P = 3
  K = 2
  Synchronised = TRUE
INVARIANTS
  AllReported
  NoneInvented
  EmitInv
PROPERTY Terminates
CHECK_DEADLOCK FALSE
