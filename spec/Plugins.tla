------------------------------ MODULE Plugins ------------------------------
(***************************************************************************)
(* Concurrent lint plugins attached to one statement (C18, second half).   *)
(* linter/custom_linter.go customLint starts one goroutine per @plugin     *)
(* annotation; each runs the plugin process and then reports every         *)
(* diagnostic it returned through Linter.Error, which appends to the       *)
(* shared slice Linter.Errors.                                             *)
(*                                                                         *)
(* Mechanism: Report = append to the shared slice.  A Go append is a read  *)
(* of the slice header followed by a write; with Synchronised = TRUE       *)
(* (Linter.mu, the fix: commit) the two halves are one atomic step, with   *)
(* FALSE they are two steps and TLC exhibits the lost update.              *)
(* Requirement: when all plugins have finished, every diagnostic each of   *)
(* them returned is in Errors exactly once.                                *)
(*                                                                         *)
(* Linter.Error also FILTERS through the linter's ignore state, which the  *)
(* main goroutine mutates while it lints the statement's body.  The code   *)
(* runs the plugins and waits for them before it lints the statement       *)
(* (WaitFirst), so their reports see the ignore state of the statement's   *)
(* entry; with WaitFirst = FALSE (wait deferred to the end of lint) TLC    *)
(* shows reports swallowed by an ignore range opened inside the body.      *)
(***************************************************************************)
EXTENDS Naturals, Sequences, FiniteSets, TLC, Json

CONSTANTS P,            \* number of plugins on the statement
          K,            \* diagnostics each plugin returns
          Synchronised,
          Nested,       \* the annotated statement has a body in which a `falco-ignore-start` range is opened
          Fails,        \* plugins whose process fails (not found / exit status / garbage): they return no diagnostics
          WaitFirst     \* customLint waits for the plugins BEFORE the statement itself is linted (the code does)

Plug == 1..P
VARIABLES ignoring, \* the linter's ignore state: an unrestricted ignore range is open
          mainpc,   \* main goroutine: "plugins" (started them) | "body" (linting the body) | "done"
          errors,   \* the shared slice
          next,     \* next diagnostic index each plugin will report (K+1 = finished)
          snap,     \* unsynchronised variant: the slice header a plugin read and has not yet written back
          has       \* ... and whether it holds one
vars == <<ignoring, mainpc, errors, next, snap, has>>

\* a failing plugin has nothing to report; it must not keep its siblings from reporting
Init == ignoring = FALSE /\ mainpc = "plugins" /\ errors = <<>> /\ next = [p \in Plug |-> IF p \in Fails THEN K + 1 ELSE 1] /\ snap = [p \in Plug |-> <<>>] /\ has = [p \in Plug |-> FALSE]

ReportAtomic(p) ==
  /\ Synchronised /\ next[p] <= K
  /\ errors' = (IF ignoring THEN errors ELSE Append(errors, <<p, next[p]>>))     \* Linter.Error filters on l.ignore
  /\ next' = [next EXCEPT ![p] = @ + 1] /\ UNCHANGED <<snap, has, ignoring, mainpc>>

ReadHeader(p) ==
  /\ ~Synchronised /\ next[p] <= K /\ ~has[p]
  /\ snap' = [snap EXCEPT ![p] = errors] /\ has' = [has EXCEPT ![p] = TRUE] /\ UNCHANGED <<errors, next, ignoring, mainpc>>
WriteBack(p) ==
  /\ ~Synchronised /\ has[p]
  /\ errors' = Append(snap[p], <<p, next[p]>>)
  /\ next' = [next EXCEPT ![p] = @ + 1] /\ snap' = [snap EXCEPT ![p] = <<>>] /\ has' = [has EXCEPT ![p] = FALSE]
  /\ UNCHANGED <<ignoring, mainpc>>

PluginsDone == \A p \in Plug : next[p] = K + 1
\* the main goroutine: lint the body of the statement (an ignore-start inside it opens a range), then finish
LintBody ==
  /\ mainpc = "plugins" /\ (WaitFirst => PluginsDone)
  /\ mainpc' = "body" /\ ignoring' = Nested /\ UNCHANGED <<errors, next, snap, has>>
Finish ==
  /\ mainpc = "body" /\ PluginsDone        \* the deferred wait of the WaitFirst = FALSE variant sits here
  /\ mainpc' = "done" /\ UNCHANGED <<ignoring, errors, next, snap, has>>

Next == (\E p \in Plug : ReportAtomic(p) \/ ReadHeader(p) \/ WriteBack(p)) \/ LintBody \/ Finish
Spec == Init /\ [][Next]_vars /\ WF_vars(Next)

Finished == PluginsDone /\ mainpc = "done"
Expected == {<<p, i>> : p \in Plug \ Fails, i \in 1..K}
AllReported == Finished => (/\ {errors[i] : i \in 1..Len(errors)} = Expected
                            /\ Len(errors) = Cardinality(Plug \ Fails) * K)
NoneInvented == \A i \in 1..Len(errors) : errors[i] \in Expected
Terminates == <>Finished

\* one workload per (P, K): what the replayer must find in Linter.Errors (each model diagnostic <<p, i>> is
\* concretised as a batch of real diagnostics "p<p>-<i>-<j>")
EmitInv == Finished => PrintT(<<"BEHAVIOUR", ToJson([p |-> P, k |-> K, nested |-> Nested, fails |-> Fails,
                                                     expected |-> Expected, count |-> Cardinality(Expected)])>>)
=============================================================================
