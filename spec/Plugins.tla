------------------------------ MODULE Plugins ------------------------------
(***************************************************************************)
(* Concurrent lint plugins attached to one statement (C18, second half).   *)
(* linter/custom_linter.go customLint starts one goroutine per @plugin     *)
(* annotation; each runs the plugin process and then reports every         *)
(* diagnostic it returned through Linter.Error, which appends to the       *)
(* shared slice Linter.Errors.                                             *)
(*                                                                         *)
(* Mechanism: Report = append to the shared slice.  A Go append is a read  *)
(* of the slice header followed by a write; with Synchronised = TRUE       *)
(* (Linter.mu, the fix: commit) the two halves are one atomic step, with   *)
(* FALSE they are two steps and TLC exhibits the lost update.              *)
(* Requirement: when all plugins have finished, every diagnostic each of   *)
(* them returned is in Errors exactly once.                                *)
(***************************************************************************)
EXTENDS Naturals, Sequences, FiniteSets, TLC, Json

CONSTANTS P,            \* number of plugins on the statement
          K,            \* diagnostics each plugin returns
          Synchronised

Plug == 1..P
VARIABLES errors,   \* the shared slice
          next,     \* next diagnostic index each plugin will report (K+1 = finished)
          snap,     \* unsynchronised variant: the slice header a plugin read and has not yet written back
          has       \* ... and whether it holds one
vars == <<errors, next, snap, has>>

Init == errors = <<>> /\ next = [p \in Plug |-> 1] /\ snap = [p \in Plug |-> <<>>] /\ has = [p \in Plug |-> FALSE]

ReportAtomic(p) ==
  /\ Synchronised /\ next[p] <= K
  /\ errors' = Append(errors, <<p, next[p]>>)
  /\ next' = [next EXCEPT ![p] = @ + 1] /\ UNCHANGED <<snap, has>>

ReadHeader(p) ==
  /\ ~Synchronised /\ next[p] <= K /\ ~has[p]
  /\ snap' = [snap EXCEPT ![p] = errors] /\ has' = [has EXCEPT ![p] = TRUE] /\ UNCHANGED <<errors, next>>
WriteBack(p) ==
  /\ ~Synchronised /\ has[p]
  /\ errors' = Append(snap[p], <<p, next[p]>>)
  /\ next' = [next EXCEPT ![p] = @ + 1] /\ snap' = [snap EXCEPT ![p] = <<>>] /\ has' = [has EXCEPT ![p] = FALSE]

Next == \E p \in Plug : ReportAtomic(p) \/ ReadHeader(p) \/ WriteBack(p)
Spec == Init /\ [][Next]_vars /\ WF_vars(Next)

Finished == \A p \in Plug : next[p] = K + 1
Expected == {<<p, i>> : p \in Plug, i \in 1..K}
AllReported == Finished => (/\ {errors[i] : i \in 1..Len(errors)} = Expected
                            /\ Len(errors) = P * K)
NoneInvented == \A i \in 1..Len(errors) : errors[i] \in Expected
Terminates == <>Finished

\* one workload per (P, K): what the replayer must find in Linter.Errors (each model diagnostic <<p, i>> is
\* concretised as a batch of real diagnostics "p<p>-<i>-<j>")
EmitInv == Finished => PrintT(<<"BEHAVIOUR", ToJson([p |-> P, k |-> K, expected |-> Expected, count |-> P * K])>>)
=============================================================================
