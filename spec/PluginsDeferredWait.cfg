SPECIFICATION Spec
CONSTANTS
  P = 2
  K = 1
  Fails = {}
  Nested = TRUE
  WaitFirst = FALSE
  Synchronised = TRUE
INVARIANTS
  AllReported
  NoneInvented
PROPERTY Terminates
CHECK_DEADLOCK FALSE
