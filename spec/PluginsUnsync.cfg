SPECIFICATION Spec
CONSTANTS
  P = 2
  K = 1
  Nested = FALSE
  WaitFirst = TRUE
  Synchronised = FALSE
INVARIANTS
  AllReported
CHECK_DEADLOCK FALSE
