SPECIFICATION Spec
CONSTANTS
  P = 2
  K = 1
  Fails = {}
  Nested = FALSE
  WaitFirst = TRUE
  Synchronised = FALSE
INVARIANTS
  AllReported
CHECK_DEADLOCK FALSE
