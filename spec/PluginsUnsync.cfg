SPECIFICATION Spec
CONSTANTS
  P = 2
  K = 1
  Synchronised = FALSE
INVARIANTS
  AllReported
CHECK_DEADLOCK FALSE
