SPECIFICATION Spec
CONSTANTS
  MaxLen = 4
  Kinds <- KindsDef
  PragmaEofExit = TRUE
INVARIANTS
  PumpBounded
  NoSkipOfCode
  Emit
PROPERTIES
  PumpReturns
  Terminates
CHECK_DEADLOCK FALSE
