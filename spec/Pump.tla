-------------------------------- MODULE Pump --------------------------------
(***************************************************************************)
(* Bounded model of the token pump (properties C01, later C14/C15): every   *)
(* sequence of at most MaxLen token kinds is built, a tokenizer serves it   *)
(* (EOF for ever once exhausted; PeekToken does not consume), and a driver  *)
(* does what parser.New does (two NextToken calls) and then calls           *)
(* Parser.NextToken until the current token is EOF.  One step = one call of *)
(* the tokenizer by ReadPeek (PumpCore!After).                              *)
(*                                                                         *)
(* Requirement (C01, "never loop"): PumpReturns - every ReadPeek call       *)
(* returns; PumpBounded - its safety form, the number of tokenizer calls is *)
(* bounded by the number of tokens and of ReadPeek calls.                   *)
(* Finished runs are printed (token kinds, predicted tokenizer calls,       *)
(* delivered tokens with nest level / comments / blank-line counts) and     *)
(* replayed through the real parser.                                        *)
(***************************************************************************)
EXTENDS PumpCore, TLC, Json

CONSTANTS Kinds, MaxLen
VARIABLES toks, phase, k, ps, cur, nread, calls, delivered
vars == <<toks, phase, k, ps, cur, nread, calls, delivered>>

Tk(i) == IF i <= Len(toks) THEN toks[i] ELSE "EOF"
\* safety form of "every ReadPeek returns": a token costs at most two tokenizer calls (PeekToken + NextToken of an
\* LF run), a ReadPeek call at most two more (EOF peeked, EOF taken)
PumpBounded == Len(calls) <= 2 * Len(toks) + 2 * nread

Init == /\ toks = <<>> /\ phase = "build" /\ k = 1 /\ ps = Pump0 /\ cur = NoTok /\ nread = 0
        /\ calls = <<>> /\ delivered = <<>>
Build == /\ phase = "build" /\ Len(toks) < MaxLen
         /\ \E t \in Kinds : toks' = Append(toks, t)
         /\ UNCHANGED <<phase, k, ps, cur, nread, calls, delivered>>
Start == /\ phase = "build" /\ phase' = "run"
         /\ UNCHANGED <<toks, k, ps, cur, nread, calls, delivered>>
\* Parser.NextToken: prev = cur; cur = peek; ReadPeek().  parser.New calls it twice; the driver goes on until cur is EOF
NextTok == /\ phase = "run" /\ ps.pc = "idle"
           /\ nread < 2 \/ cur.type # "EOF"
           /\ cur' = ps.peek /\ ps' = Call(ps) /\ nread' = nread + 1
           /\ delivered' = IF nread >= 1 THEN Append(delivered, ps.peek) ELSE delivered
           /\ UNCHANGED <<toks, phase, k, calls>>
Finish == /\ phase = "run" /\ ps.pc = "idle" /\ nread >= 2 /\ cur.type = "EOF"
          /\ phase' = "done"
          /\ UNCHANGED <<toks, k, ps, cur, nread, calls, delivered>>
\* one tokenizer call inside ReadPeek
Step == /\ phase = "run" /\ ps.pc # "idle" /\ PumpBounded
        /\ LET m == Method(ps.pc) ty == Tk(k) IN
           /\ calls' = Append(calls, m \o ":" \o ty)
           /\ k' = IF m = "N" THEN k + 1 ELSE k          \* PeekToken leaves the token in the lexer's queue
           /\ ps' = After(ps, ty)
        /\ UNCHANGED <<toks, phase, cur, nread, delivered>>
\* a pump that made more calls than PumpBounded allows is looping: the run is cut and printed with req.bounded = FALSE
Cut == /\ phase = "run" /\ ~PumpBounded /\ phase' = "done"
       /\ UNCHANGED <<toks, k, ps, cur, nread, calls, delivered>>
Next == Build \/ Start \/ NextTok \/ Finish \/ Step \/ Cut
Spec == Init /\ [][Next]_vars /\ WF_vars(Step) /\ WF_vars(NextTok) /\ WF_vars(Finish)

PumpReturns == (ps.pc # "idle") ~> (ps.pc = "idle")
Terminates  == (phase = "run") ~> (phase = "done")
\* each token is delivered at most once and in order: what was delivered is a subsequence of the input kinds + EOFs
NoSkipOfCode == \A i \in 1..Len(delivered) : delivered[i].type \notin {"LF", "COMMENT", "CONTROL", "PRAGMA"}

Emit == phase = "done" =>
          PrintT(<<"BEHAVIOUR", ToJson([toks |-> toks, calls |-> calls, delivered |-> delivered,
                                        req |-> [bounded |-> PumpBounded]])>>)
KindsDef == {"LF", "COMMENT", "LEFT_BRACE", "RIGHT_BRACE", "CONTROL", "PRAGMA", "SEMICOLON", "IDENT"}
\* a small alphabet for long sequences: the locals of ReadPeek (comments collected, blank-line count, the pragma
\* skip) and the tokenizer's peeked token carry over many calls
DeepKinds == {"LF", "COMMENT", "PRAGMA", "SEMICOLON", "IDENT"}
=============================================================================
