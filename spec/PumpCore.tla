------------------------------ MODULE PumpCore ------------------------------
(***************************************************************************)
(* The parser's token pump, parser/parser.go ReadPeek (called by            *)
(* Parser.NextToken and twice by parser.New), as a step function over a     *)
(* pump state                                                              *)
(*   [pc, level, pfx, empties, leading, peek]                               *)
(* pc: "idle" (between two ReadPeek calls) | "top" (head of the for loop,   *)
(* about to call tk.NextToken) | "lfrun" (inner loop after an LF, about to  *)
(* call tk.PeekToken) | "lfnext" (the peeked token was an LF, about to      *)
(* consume it) | "pragma" (skipping the tokens of a pragma).                *)
(* level = Parser.level, pfx = prefixedLineFeed, empties =                  *)
(* previousEmptyLines, leading = the comments collected for the next token, *)
(* peek = the token delivered last (Parser.peekToken).                      *)
(*                                                                         *)
(* PragmaEofExit = TRUE is the code as it is now; FALSE is the loop as it   *)
(* was before the repair (`for { t = NextToken(); if t is ";" break }`),    *)
(* kept so that the model can show the lasso (Pump.cfg / PumpOld.cfg).      *)
(***************************************************************************)
EXTENDS Integers, Sequences

CONSTANT PragmaEofExit

NoTok == [type |-> "none", nest |-> 0, empties |-> 0, leading |-> <<>>]
Pump0 == [pc |-> "idle", level |-> 0, pfx |-> FALSE, empties |-> 0, leading |-> <<>>, peek |-> NoTok]

\* entry of ReadPeek: fresh locals
Call(ps) == [ps EXCEPT !.pc = "top", !.pfx = FALSE, !.empties = 0, !.leading = <<>>]
\* which Tokenizer method the pump calls next
Method(pc) == IF pc = "lfrun" THEN "P" ELSE "N"
\* meta := ast.New(t, p.level, leading); meta.PreviousEmptyLines = previousEmptyLines; p.peekToken = meta; break
Deliver(ps, ty) == [ps EXCEPT !.pc = "idle",
                              !.peek = [type |-> ty, nest |-> ps.level, empties |-> ps.empties, leading |-> ps.leading]]
\* the pump after the tokenizer answered its call with a token of type ty
After(ps, ty) ==
  CASE ps.pc = "top" ->
         CASE ty = "LF"          -> [ps EXCEPT !.pc = "lfrun", !.pfx = TRUE]
           [] ty = "COMMENT"     -> [ps EXCEPT !.leading = Append(@, [pfx |-> ps.pfx, empties |-> ps.empties]), !.empties = 0]
           [] ty = "CONTROL"     -> ps
           [] ty = "PRAGMA"      -> [ps EXCEPT !.pc = "pragma"]
           [] ty = "LEFT_BRACE"  -> Deliver([ps EXCEPT !.level = @ + 1], ty)
           [] ty = "RIGHT_BRACE" -> Deliver([ps EXCEPT !.level = @ - 1], ty)     \* may go negative, as in Go
           [] OTHER              -> Deliver(ps, ty)
    [] ps.pc = "lfrun"  -> IF ty = "LF" THEN [ps EXCEPT !.pc = "lfnext", !.empties = @ + 1] ELSE [ps EXCEPT !.pc = "top"]
    [] ps.pc = "lfnext" -> [ps EXCEPT !.pc = "lfrun"]
    [] ps.pc = "pragma" -> IF ty = "SEMICOLON" THEN [ps EXCEPT !.pc = "top"]
                           ELSE IF ty = "EOF" /\ PragmaEofExit THEN Deliver(ps, ty)
                           ELSE ps
=============================================================================
