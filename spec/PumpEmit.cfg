SPECIFICATION Spec
CONSTANTS
  MaxLen = 4
  Kinds <- KindsDef
  PragmaEofExit = TRUE
INVARIANTS
  Emit
CHECK_DEADLOCK FALSE
