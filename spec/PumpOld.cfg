SPECIFICATION Spec
CONSTANTS
  MaxLen = 2
  Kinds <- KindsDef
  PragmaEofExit = FALSE
INVARIANTS
  PumpBounded
  NoSkipOfCode
  Emit
PROPERTIES
  PumpReturns
  Terminates
CHECK_DEADLOCK FALSE
