SPECIFICATION Spec
CONSTANTS
  N = 3
  Gated = TRUE
  Locked = TRUE
  KindSet = {"L", "P", "E", "R", "F"}
INVARIANTS
  Serialisable
  MutualExclusion
  OwnResponse
  EmitInv
PROPERTY Terminates
CHECK_DEADLOCK FALSE
