------------------------------- MODULE Serial -------------------------------
(***************************************************************************)
(* N concurrent requests against ONE simulator instance (C18).             *)
(*                                                                         *)
(* Mechanism (interpreter/handler.go ServeHTTP): per-request state - the   *)
(* context i.ctx and the process report i.process - lives on the shared    *)
(* Interpreter object; ProcessInit installs it, the lifecycle mutates it   *)
(* together with the shared cache / rate counters, sendProcessResponse     *)
(* reads it back.  One mutex (i.lock) is taken before ProcessInit and      *)
(* released after the response is written.                                 *)
(*                                                                         *)
(* A request passes through the observable points                          *)
(*   Start    the goroutine calls ServeHTTP (it may block on the lock)     *)
(*   Enter    lock acquired, ProcessInit installed the request's context   *)
(*   Body     the lifecycle ran: cache lookup/store, counter increment     *)
(*   Respond  the report is read from the interpreter and written; unlock  *)
(* These are exactly the gates of the replayer (Debugger.Run, the          *)
(* ResponseWriter), so every schedule TLC enumerates is realised on the    *)
(* real handler.                                                           *)
(*                                                                         *)
(* Requirement: the responses and the final shared state are those of SOME *)
(* one-at-a-time order (Serialisable).  With Locked = TRUE TLC proves it   *)
(* for the model; with Locked = FALSE it finds the interference - which is *)
(* why the check watches the lock.                                         *)
(***************************************************************************)
EXTENDS Naturals, Sequences, FiniteSets, TLC, Json

CONSTANTS N,        \* number of concurrent requests
          Locked,   \* does ServeHTTP hold i.lock around the request
          Gated,    \* restrict the scheduler to what the gate-driven replayer can force (see StartG / RespondG)
          KindSet   \* request kinds: "L" lookup, "P" pass, "E" error in recv, "R" restart once then lookup,
                    \* "F" a request the handler refuses before taking the lock (loop detection on Fastly-FF)

Req == 1..N
VARIABLES kind, pc, holder, owner, slot, cached, counter, out, sched
vars == <<kind, pc, holder, owner, slot, cached, counter, out, sched>>

None == [who |-> 0, branch |-> "none", seen |-> 0]

Init ==
  /\ kind \in [Req -> KindSet]
  /\ pc = [r \in Req |-> "idle"]
  /\ holder = 0 /\ owner = 0 /\ slot = None
  /\ cached = FALSE /\ counter = 0
  /\ out = [r \in Req |-> None]
  /\ sched = <<>>

Start(r) ==
  /\ pc[r] = "idle"
  /\ IF kind[r] = "F"
     THEN pc' = [pc EXCEPT ![r] = "done"] /\ out' = [out EXCEPT ![r] = [who |-> r, branch |-> "loop", seen |-> 0]]
     ELSE pc' = [pc EXCEPT ![r] = "waiting"] /\ UNCHANGED out
  /\ sched' = Append(sched, <<"Start", r>>)
  /\ UNCHANGED <<kind, holder, owner, slot, cached, counter>>

Enter(r) ==
  /\ pc[r] = "waiting"
  /\ Locked => holder = 0
  /\ holder' = (IF Locked THEN r ELSE holder)
  /\ owner' = r /\ slot' = [None EXCEPT !.who = r]       \* ProcessInit: i.ctx, i.process = fresh ones of r
  /\ pc' = [pc EXCEPT ![r] = "in"]
  /\ sched' = Append(sched, <<"Enter", r>>)
  /\ UNCHANGED <<kind, cached, counter, out>>

\* what the lifecycle of a request of kind k reports when it runs against the shared state
Branch(k, c) == IF k \in {"L", "R"} THEN (IF c THEN "HIT" ELSE "MISS") ELSE IF k = "P" THEN "MISS" ELSE "none"
Stores(k, c) == c \/ (k \in {"L", "R", "P"} /\ ~(k \in {"L", "R"} /\ c))  \* a fetch stores the (cacheable) response
\* (a hit does not fetch; pass and miss fetch and updateCache stores)

Body(r) ==
  /\ pc[r] = "in"
  \* the lifecycle runs on whatever context is installed on the interpreter right now
  /\ LET k == kind[owner] IN
     /\ slot' = [who |-> owner, branch |-> Branch(k, cached), seen |-> counter + 1]
     /\ cached' = (cached \/ k \in {"L", "R", "P"})
     /\ counter' = counter + 1
  /\ pc' = [pc EXCEPT ![r] = "resp"]
  /\ UNCHANGED <<kind, holder, owner, out>>

Respond(r) ==
  /\ pc[r] = "resp"
  /\ out' = [out EXCEPT ![r] = slot]                      \* sendProcessResponse reads i.process
  /\ holder' = (IF holder = r THEN 0 ELSE holder)
  /\ pc' = [pc EXCEPT ![r] = "done"]
  /\ sched' = Append(sched, <<"Respond", r>>)
  /\ UNCHANGED <<kind, owner, slot, cached, counter>>

(***************************************************************************)
(* The replayer cannot choose which of several goroutines blocked on a Go  *)
(* mutex gets it, and a goroutine that finds the lock free takes it at     *)
(* once.  The gated scheduler is the refinement it CAN force: a request    *)
(* started while the lock is free enters immediately; at most one request  *)
(* waits; releasing the lock hands it to the waiter.  (Several waiters are *)
(* covered by the free-running mode of the check.)                         *)
(***************************************************************************)
Waiting == {r \in Req : pc[r] = "waiting"}
Install(r) == owner' = r /\ slot' = [None EXCEPT !.who = r]

\* a refused request never takes the lock and touches nothing shared
Refused(r) == [who |-> r, branch |-> "loop", seen |-> 0]

StartG(r) ==
  /\ pc[r] = "idle"
  /\ IF kind[r] = "F"
     THEN /\ pc' = [pc EXCEPT ![r] = "done"] /\ out' = [out EXCEPT ![r] = Refused(r)]
          /\ sched' = Append(sched, <<"Start", r, r>>) /\ UNCHANGED <<holder, owner, slot>>
     ELSE
     IF ~Locked \/ holder = 0
     THEN /\ pc' = [pc EXCEPT ![r] = "in"] /\ holder' = (IF Locked THEN r ELSE holder) /\ Install(r)
          /\ sched' = Append(sched, <<"Start", r, r>>)          \* third component: who arrives at the enter gate
     ELSE /\ Waiting = {}
          /\ pc' = [pc EXCEPT ![r] = "waiting"] /\ UNCHANGED <<holder, owner, slot>>
          /\ sched' = Append(sched, <<"Start", r, 0>>)
  /\ kind[r] # "F" => UNCHANGED out
  /\ UNCHANGED <<kind, cached, counter>>

BodyG(r) == Body(r) /\ sched' = Append(sched, <<"Body", r, 0>>)

RespondG(r) ==
  /\ pc[r] = "resp"
  /\ out' = [out EXCEPT ![r] = slot]
  /\ IF holder = r /\ Waiting # {}
     THEN LET w == CHOOSE x \in Waiting : TRUE IN
          /\ holder' = w /\ Install(w) /\ pc' = [pc EXCEPT ![r] = "done", ![w] = "in"]
          /\ sched' = Append(sched, <<"Respond", r, w>>)
     ELSE /\ holder' = (IF holder = r THEN 0 ELSE holder) /\ UNCHANGED <<owner, slot>>
          /\ pc' = [pc EXCEPT ![r] = "done"]
          /\ sched' = Append(sched, <<"Respond", r, 0>>)
  /\ UNCHANGED <<kind, cached, counter>>

BodyU(r) == Body(r) /\ sched' = Append(sched, <<"Body", r>>)
Next == IF Gated
        THEN \E r \in Req : StartG(r) \/ BodyG(r) \/ RespondG(r)
        ELSE \E r \in Req : Start(r) \/ Enter(r) \/ BodyU(r) \/ Respond(r)
Spec == Init /\ [][Next]_vars /\ WF_vars(Next)

AllDone == \A r \in Req : pc[r] = "done"

(***************************************************************************)
(* REQUIREMENT                                                             *)
(***************************************************************************)
\* responses of the sequential execution in the order given by the sequence `ord`
RECURSIVE SeqRun(_, _, _, _)
SeqRun(ord, c, n, acc) ==
  IF ord = <<>> THEN [out |-> acc, cached |-> c, counter |-> n]
  ELSE LET r == Head(ord)  k == kind[r] IN
       IF k = "F" THEN SeqRun(Tail(ord), c, n, [acc EXCEPT ![r] = [who |-> r, branch |-> "loop", seen |-> 0]])
       ELSE SeqRun(Tail(ord), c \/ k \in {"L", "R", "P"}, n + 1,
                   [acc EXCEPT ![r] = [who |-> r, branch |-> Branch(k, c), seen |-> n + 1]])

Perms == {p \in [Req -> Req] : \A a, b \in Req : a # b => p[a] # p[b]}
AsSeq(p) == [i \in Req |-> p[i]]

Serialisable ==
  AllDone => \E p \in Perms :
               LET s == SeqRun(AsSeq(p), FALSE, 0, [r \in Req |-> None]) IN
               s.out = out /\ s.cached = cached /\ s.counter = counter

MutualExclusion == Cardinality({r \in Req : pc[r] \in {"in", "resp"}}) <= 1
OwnResponse == \A r \in Req : pc[r] = "done" => out[r].who = r
Terminates == <>AllDone

\* complete schedules with the responses the specification predicts, for the gate-driven replayer
EmitInv == AllDone => PrintT(<<"BEHAVIOUR", ToJson([n |-> N, kind |-> kind, sched |-> sched, out |-> out,
                                                    cached |-> cached, counter |-> counter])>>)
=============================================================================
