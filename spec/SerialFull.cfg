SPECIFICATION Spec
CONSTANTS
  N = 3
  Gated = FALSE
  Locked = TRUE
  KindSet = {"L", "P", "E", "R", "F"}
INVARIANTS
  Serialisable
  MutualExclusion
  OwnResponse
PROPERTY Terminates
CHECK_DEADLOCK FALSE
