SPECIFICATION Spec
CONSTANTS
  N = 4
  Gated = TRUE
  Locked = TRUE
  KindSet = {"L", "P", "E", "R", "F"}
INVARIANTS
  Serialisable
  MutualExclusion
  OwnResponse
  EmitInv
CHECK_DEADLOCK FALSE
