SPECIFICATION Spec
CONSTANTS
  TraceFile = "events.ndjson"
INVARIANTS
  AcceptInv
CHECK_DEADLOCK FALSE
