---------------------------- MODULE SerialTrace ----------------------------
(***************************************************************************)
(* Trace validation of the handler's critical section (C18, mechanism      *)
(* level).  Events recorded by the harness's Debugger / ResponseWriter, in *)
(* global order:  enter(r) = first statement of request r executed (after  *)
(* ProcessInit), log(r) = a log statement of r executed, wh(r) = r's       *)
(* response header written.  This is Serial.tla with Locked = TRUE         *)
(* projected onto those events: Enter takes the lock (holder = 0 before),  *)
(* everything r does happens while holder = r, wh releases it.             *)
(* A rejected trace means two requests were inside the handler at once.    *)
(***************************************************************************)
EXTENDS Naturals, Sequences, TLC, Json

CONSTANT TraceFile
Traces == ndJsonDeserialize(TraceFile)

VARIABLES t, l, holder
vars == <<t, l, holder>>

Init == \E tt \in 1..Len(Traces) : t = tt /\ l = 1 /\ holder = 0
Ev == Traces[t].events[l]

Enter  == Ev.ev = "enter" /\ holder = 0 /\ holder' = Ev.r
Inside == Ev.ev = "log" /\ holder = Ev.r /\ UNCHANGED holder
Leave  == Ev.ev = "wh" /\ holder = Ev.r /\ holder' = 0

Next == /\ l <= Len(Traces[t].events)
        /\ (Enter \/ Inside \/ Leave)
        /\ l' = l + 1 /\ UNCHANGED t
Spec == Init /\ [][Next]_vars

Accepted == l = Len(Traces[t].events) + 1 /\ holder = 0
AcceptInv == Accepted => PrintT(<<"BEHAVIOUR", ToJson([accept |-> Traces[t].id])>>)
=============================================================================
