SPECIFICATION Spec
CONSTANTS
  N = 2
  Gated = FALSE
  Locked = FALSE
  KindSet = {"L", "E"}
INVARIANTS
  Serialisable
CHECK_DEADLOCK FALSE
