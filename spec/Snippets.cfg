SPECIFICATION Spec
CONSTANTS
  MaxLen = 2
  Escaping = "pct"
INVARIANTS
  EmitInv
CHECK_DEADLOCK FALSE
