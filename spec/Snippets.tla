------------------------------ MODULE Snippets ------------------------------
(***************************************************************************)
(* VCL generated from Fastly resources (edge dictionaries, ACLs, backends, *)
(* directors read from the Fastly API or a Terraform plan) - snippet/      *)
(* template.go - and read back by the VCL parser.                          *)
(*                                                                         *)
(* Text is a sequence of code points (integers), so that escaping and the  *)
(* parser's %XX decoding are arithmetic.  Values are enumerated over a     *)
(* small alphabet with one representative per character class the property *)
(* names: plain, space, `"`, `%`, a hex digit (so that `%44` is URL-encoded*)
(* text), `{`, `}`, newline, `#`, non-ASCII.                               *)
(*                                                                         *)
(*   requirement  the generated VCL parses, and every dictionary item, ACL *)
(*                entry, backend and director read back from it has        *)
(*                exactly the key, value, address, mask, negation and      *)
(*                membership of the resource (Faithful).                   *)
(*   mechanism    Render* = the concatenations of dictionaryTemplate,      *)
(*                aclTemplate, backendTemplate, directorTemplate with the  *)
(*                helper functions vclstring / oneline / sanitize;         *)
(*                ReadStr = how the lexer and parser read a "..." literal  *)
(*                (ends at the first `"`, %XX decoded, a `%` that is not   *)
(*                followed by two hex digits is an error), ReadComment =   *)
(*                a `#` comment ends at the first newline, ReadIdent = an  *)
(*                identifier continues over letters, digits, `_ - . :`.    *)
(* Escaping = "pct" is the code as it is now; "none" is the code before    *)
(* the repair (SnippetsOld.cfg: TLC reports the violations).               *)
(***************************************************************************)
EXTENDS Integers, Sequences, FiniteSets, TLC, Json

CONSTANTS MaxLen,      \* longest generated text value
          Escaping     \* "pct" | "none"

DQ == 34  PC == 37  NL == 10  SP == 32  HASH == 35  US == 95
TextAlphabet == {122, SP, DQ, PC, 52, 123, 125, NL, HASH, 233}      \* z space " % 4 { } \n # e-acute
\* b 1 - . space _  and what is a letter / digit / mark only outside ASCII: o-umlaut, ARABIC-INDIC DIGIT THREE,
\* COMBINING ACUTE ACCENT, an emoji - none of them may appear in a VCL identifier
NameAlphabet == {98, 49, 45, 46, SP, US, 246, 1635, 769, 128512}

RECURSIVE SeqsUpTo(_, _)
SeqsUpTo(A, n) == IF n = 0 THEN {<<>>} ELSE LET S == SeqsUpTo(A, n - 1) IN S \cup {Append(s, a) : s \in {t \in S : Len(t) = n - 1}, a \in A}
\* delimiter texts: closers / openers of the VCL long-string forms next to a line feed (a value that a generator might
\* be tempted to print as a long string) - in every tier, whatever MaxLen is (seeded change C20-10)
DelimTexts == {<<34, 125, 10>>, <<10, 34, 125>>, <<123, 34, 10>>}
Texts == SeqsUpTo(TextAlphabet, MaxLen) \cup DelimTexts
Names == {<<98>> \o s : s \in SeqsUpTo(NameAlphabet, 2)}             \* names that start with an ASCII letter
         \cup {<<246>>, <<246, 1635>>, <<128512, 246>>, <<75, 246, 108, 110, SP, 111>>}   \* and names without one / "Koeln o" with an umlaut

RECURSIVE Flat(_)
Flat(ss) == IF ss = <<>> THEN <<>> ELSE Head(ss) \o Flat(Tail(ss))
Map(f(_), s) == [i \in 1..Len(s) |-> f(s[i])]

(***************************************************************************)
(* mechanism: template helpers                                             *)
(***************************************************************************)
\* vclstring: `"` and `%` are written as %22 and %25 (the parser decodes %XX inside "...")
EscChar(c) == IF Escaping = "pct" /\ c = DQ THEN <<PC, 50, 50>>
              ELSE IF Escaping = "pct" /\ c = PC THEN <<PC, 50, 53>>
              ELSE <<c>>
VclString(t) == Flat(Map(EscChar, t))
\* oneline: a comment must stay on its line
OneLine(t) == IF Escaping = "pct" THEN [i \in 1..Len(t) |-> IF t[i] = NL THEN SP ELSE t[i]] ELSE t
\* sanitize: \W -> _
IsWord(c) == (c >= 48 /\ c <= 57) \/ (c >= 65 /\ c <= 90) \/ (c >= 97 /\ c <= 122) \/ c = US
Sanitize(t) == [i \in 1..Len(t) |-> IF IsWord(t[i]) THEN t[i] ELSE US]
\* reference to a backend inside a director: sanitised like the declaration (it was written raw before the repair)
BackendRef(t) == <<70, US>> \o (IF Escaping = "pct" THEN Sanitize(t) ELSE t)

(***************************************************************************)
(* mechanism: how the parser reads the generated text back                 *)
(***************************************************************************)
IsHex(c) == (c >= 48 /\ c <= 57) \/ (c >= 97 /\ c <= 102) \/ (c >= 65 /\ c <= 70)
HexVal(c) == IF c <= 57 THEN c - 48 ELSE IF c >= 97 THEN c - 87 ELSE c - 55
\* a "..." literal whose interior is cs: closed where the template closes it iff cs has no `"`;
\* decodeStringEscapes: %XX -> byte (only one-byte escapes can arise here), anything else after % is an error
RECURSIVE Decode(_, _)
Decode(cs, i) ==
  IF i > Len(cs) THEN [ok |-> TRUE, v |-> <<>>]
  ELSE IF cs[i] = PC
  THEN IF i + 2 <= Len(cs) /\ IsHex(cs[i + 1]) /\ IsHex(cs[i + 2]) /\ 16 * HexVal(cs[i + 1]) + HexVal(cs[i + 2]) \in 1..127
       THEN LET r == Decode(cs, i + 3) IN [ok |-> r.ok, v |-> <<16 * HexVal(cs[i + 1]) + HexVal(cs[i + 2])>> \o r.v]
       ELSE [ok |-> FALSE, v |-> <<>>]
  ELSE LET r == Decode(cs, i + 1) IN [ok |-> r.ok, v |-> <<cs[i]>> \o r.v]
ReadStr(cs) == IF \E i \in 1..Len(cs) : cs[i] = DQ THEN [ok |-> FALSE, v |-> <<>>] ELSE Decode(cs, 1)
\* `# comment`: everything after the first newline is VCL again; it only parses if it is blank or another comment
RECURSIVE LinesOK(_, _, _)
LinesOK(cs, i, fresh) ==           \* fresh: only blanks seen since the last newline
  IF i > Len(cs) THEN TRUE
  ELSE IF cs[i] = NL THEN LinesOK(cs, i + 1, TRUE)
  ELSE IF ~fresh THEN LinesOK(cs, i + 1, FALSE)
  ELSE IF cs[i] = SP THEN LinesOK(cs, i + 1, TRUE)
  ELSE IF cs[i] = HASH THEN LinesOK(cs, i + 1, FALSE)
  ELSE FALSE
FirstNL(cs) == IF \E i \in 1..Len(cs) : cs[i] = NL THEN CHOOSE i \in 1..Len(cs) : cs[i] = NL /\ \A j \in 1..(i - 1) : cs[j] # NL ELSE 0
ReadComment(cs) == FirstNL(cs) = 0 \/ LinesOK(cs, FirstNL(cs) + 1, TRUE)
\* an identifier written raw: it is one identifier iff every character continues an identifier
IsIdentChar(c) == IsWord(c) \/ c \in {45, 46, 58}
ReadIdent(cs) == [ok |-> \A i \in 1..Len(cs) : IsIdentChar(cs[i]), v |-> cs]

(***************************************************************************)
(* resources (the quantifier, bounded) and their rendering                 *)
(***************************************************************************)
Z == <<122>>
DictItems ==
  {<<>>} \cup {<<[key |-> t, value |-> Z]>> : t \in Texts \ {<<>>}} \cup {<<[key |-> Z, value |-> t]>> : t \in Texts}
  \cup {<<[key |-> t, value |-> t]>> : t \in {u \in Texts : Len(u) = MaxLen}}
  \cup {<<[key |-> Z, value |-> t], [key |-> <<122, 122>>, value |-> Z], [key |-> <<52>>, value |-> t]>> : t \in {u \in Texts : Len(u) = 1}}
RECURSIVE Digits(_)
Digits(n) == IF n < 10 THEN <<48 + n>> ELSE Digits(n \div 10) \o <<48 + (n % 10)>>
\* listings longer than a page of the API (100 records): every item distinguishable
PageSizes == {0, 1, 99, 100, 101, 150, 201, 250}
ManyItems(n) == [i \in 1..n |-> [key |-> <<107>> \o Digits(i), value |-> <<118>> \o Digits(i)]]                  \* k<i>: v<i>
ManyEntries(n) == [i \in 1..n |-> [ip |-> <<49, 48, 46, 48, 46>> \o Digits(i \div 250) \o <<46>> \o Digits(i % 250),  \* 10.0.x.y
                                  negated |-> (i % 2 = 0), subnet |-> 32, comment |-> <<>>]]
Dicts == {[kind |-> "dict", name |-> <<100>>, items |-> its] : its \in DictItems \cup {ManyItems(n) : n \in PageSizes}}

IPs == {<<49, 48, 46, 48, 46, 48, 46, 48>>, <<50, 48, 48, 49, 58, 100, 98, 56, 58, 58, 49>>}     \* 10.0.0.0  2001:db8::1
Entries == {[ip |-> ip, negated |-> ng, subnet |-> sn, comment |-> <<>>] : ip \in IPs, ng \in BOOLEAN, sn \in {-1, 0, 8, 128}}
           \cup {[ip |-> IPs_, negated |-> FALSE, subnet |-> 8, comment |-> c] : IPs_ \in {<<49, 48, 46, 48, 46, 48, 46, 48>>}, c \in Texts \ {<<>>}}
Acls == {[kind |-> "acl", name |-> <<97>>, entries |-> es] :
           es \in {<<>>} \cup {<<e>> : e \in Entries}
                  \cup {<<e, [ip |-> <<50, 48, 48, 49, 58, 100, 98, 56, 58, 58, 49>>, negated |-> TRUE, subnet |-> -1, comment |-> <<>>]>> :
                          e \in {x \in Entries : x.comment # <<>> /\ Len(x.comment) = 1}}
                  \cup {ManyEntries(n) : n \in PageSizes \ {0}}}

Hosts == {<<>>} \cup {<<104>>, <<104, 46, 122>>} \cup {t \in Texts : Len(t) = 1}          \* <<>> = no address
Backends == {[kind |-> "backend", name |-> n, address |-> h] : n \in Names, h \in {<<104>>}}
            \cup {[kind |-> "backend", name |-> <<98>>, address |-> h] : h \in Hosts}
\* directors come with the backends they refer to (membership is a relation between the two declarations)
MemberSets == {<<>>} \cup {<<n>> : n \in Names} \cup {<<<<98>>, n>> : n \in {m \in Names : Sanitize(m) # <<98>>}}
Directors == {[kind |-> "director", name |-> <<100>>, type |-> ty, retries |-> 5, quorum |-> 75, members |-> ms] : ty \in {1, 2, 3}, ms \in {<<>>, <<<<98>>>>}}
             \cup {[kind |-> "director", name |-> <<100>>, type |-> 1, retries |-> rt, quorum |-> q, members |-> ms] :
                     rt \in {0, 3}, q \in {0, 50}, ms \in MemberSets}
             \cup {[kind |-> "director", name |-> n, type |-> 1, retries |-> 0, quorum |-> 50, members |-> <<<<98>>>>] : n \in Names}
(***************************************************************************)
(* Resource SETS: several dictionaries and ACLs in one service, and two    *)
(* services in one Terraform plan whose resources have equal or different  *)
(* names.  Contents reach a declaration through a join: the API client     *)
(* fetches the items / entries of every dictionary / ACL with one          *)
(* sub-request per resource id (answered in any order: `late` is the       *)
(* sub-request answered last), a plan holds them as separate resources     *)
(* keyed by (service id, name).  Requirement: every declaration carries    *)
(* exactly ITS resource's items / entries - per service.                   *)
(***************************************************************************)
I0 == <<>>
IA == <<[key |-> <<107, 49>>, value |-> <<118, 49>>]>>                                                  \* k1: v1
IB == <<[key |-> <<107, 50>>, value |-> <<118, DQ>>], [key |-> <<107, 51>>, value |-> <<PC, 52, 52>>]>>  \* k2: v"  k3: %44
E0 == <<>>
EA == <<[ip |-> <<49, 48, 46, 48, 46, 48, 46, 48>>, negated |-> FALSE, subnet |-> 8, comment |-> <<>>]>>
EB == <<[ip |-> <<49, 48, 46, 48, 46, 48, 46, 48>>, negated |-> TRUE, subnet |-> 16, comment |-> <<>>],
        [ip |-> <<50, 48, 48, 49, 58, 100, 98, 56, 58, 58, 49>>, negated |-> FALSE, subnet |-> -1, comment |-> <<122, NL, 122>>]>>
MkDict(nm, its) == [kind |-> "dict", name |-> nm, items |-> its, wo |-> FALSE]
\* a write-only (private) dictionary: its items cannot be read (the API refuses), it is declared as an empty table
MkDictWO(nm) == [kind |-> "dict", name |-> nm, items |-> I0, wo |-> TRUE]
MkAcl(nm, es) == [kind |-> "acl", name |-> nm, entries |-> es]
Svc(id, ds, as) == [id |-> id, dicts |-> ds, acls |-> as]
ContentPairs == {<<I0, IA, E0, EA>>, <<IA, I0, EA, E0>>, <<IA, IB, EA, EB>>, <<IB, IA, EB, EA>>, <<IA, IA, EA, EA>>}
\* where the resources sit in the Terraform plan: everything in the root module, in a child module, in a nested
\* child module, or split (service in the root, dictionary items in a child, ACL entries in a nested child module)
Places == {"root", "child", "nested", "split"}
MultisWO ==
  \* attributes that change what is rendered: a write-only dictionary first / in the middle / last among readable ones
  {[kind |-> "multi", late |-> 1, place |-> pl,
    services |-> <<Svc("s1", ds, <<MkAcl(<<97>>, EA), MkAcl(<<98>>, E0)>>)>>] :
     pl \in {"root", "nested"},
     ds \in {<<MkDictWO(<<119>>), MkDict(<<100>>, IA), MkDict(<<101>>, IB)>>,
             <<MkDict(<<100>>, IA), MkDictWO(<<119>>), MkDict(<<101>>, IB)>>,
             <<MkDict(<<100>>, IA), MkDict(<<101>>, IB), MkDictWO(<<119>>)>>,
             <<MkDictWO(<<119>>), MkDict(<<100>>, I0), MkDict(<<101>>, IA)>>}}
Multis0 ==
  \* one service, two dictionaries and two ACLs
  {[kind |-> "multi", late |-> l, place |-> "root",
    services |-> <<Svc("s1", <<MkDict(<<100>>, c[1]), MkDict(<<101>>, c[2])>>, <<MkAcl(<<97>>, c[3]), MkAcl(<<98>>, c[4])>>)>>] :
     c \in ContentPairs, l \in {1, 2}}
  \* two services in one plan, resource names equal or different
  \cup {[kind |-> "multi", late |-> 1, place |-> "root",
         services |-> <<Svc("s1", <<MkDict(<<100>>, c[1])>>, <<MkAcl(<<97>>, c[3])>>),
                        Svc("s2", <<MkDict(n[1], c[2])>>, <<MkAcl(n[2], c[4])>>)>>] :
          c \in ContentPairs, n \in {<<<<100>>, <<97>>>>, <<<<101>>, <<98>>>>}}
  \* two services, two resources each, names crossed
  \cup {[kind |-> "multi", late |-> l, place |-> "root",
         services |-> <<Svc("s1", <<MkDict(<<100>>, IA), MkDict(<<101>>, I0)>>, <<MkAcl(<<97>>, EA), MkAcl(<<98>>, EB)>>),
                        Svc("s2", <<MkDict(<<101>>, IB), MkDict(<<100>>, IB)>>, <<MkAcl(<<98>>, E0), MkAcl(<<97>>, EB)>>)>>] : l \in {1, 2}}
Multis == {[m EXCEPT !.place = pl] : m \in Multis0, pl \in Places} \cup MultisWO
Cases == Dicts \cup Acls \cup Backends \cup Directors \cup Multis

S(str) == [lit |-> str]          \* a literal piece of template text (the harness concatenates pieces)
V(cs) == [cs |-> cs]             \* a variable piece, code points
Num(n) == IF n < 0 THEN <<45>> \o Digits(-n) ELSE Digits(n)

RenderDict(d) ==
  <<S("\ntable "), V(d.name), S(" STRING {")>>
  \o Flat([i \in 1..Len(d.items) |-> <<S("\n  \""), V(VclString(d.items[i].key)), S("\": \""), V(VclString(d.items[i].value)), S("\",")>>])
  \o <<S("\n}\n")>>
RenderAcl(a) ==
  <<S("\nacl "), V(a.name), S(" {")>>
  \o Flat([i \in 1..Len(a.entries) |->
        LET e == a.entries[i] IN
        <<S("\n\t")>> \o (IF e.negated THEN <<S("!")>> ELSE <<>>) \o <<S("\""), V(VclString(e.ip)), S("\"")>>
        \o (IF e.subnet >= 0 THEN <<S("/"), V(Num(e.subnet))>> ELSE <<>>) \o <<S(";")>>
        \o (IF e.comment # <<>> THEN <<S("  # "), V(OneLine(e.comment))>> ELSE <<>>)])
  \o <<S("\n}\n")>>
RenderBackend(b) ==
  <<S("\nbackend F_"), V(Sanitize(b.name)), S(" {\n\t")>>
  \o (IF b.address # <<>> THEN <<S(".host = \""), V(VclString(b.address)), S("\";")>> ELSE <<>>)
  \o <<S("\n}\n")>>
TypeName(ty) == CASE ty = 1 -> "random" [] ty = 2 -> "hash" [] ty = 3 -> "client"
\* fetchDirector: .retries only for the random director, and only when it is not zero
Retries(d) == IF d.type = 1 THEN d.retries ELSE 0
RenderDirector(d) ==
  <<S("\ndirector "), V(Sanitize(d.name)), S(" "), S(TypeName(d.type)), S(" {")>>
  \o (IF Retries(d) # 0 THEN <<S("\n\t.retries = "), V(Num(Retries(d))), S(";")>> ELSE <<>>)
  \o <<S("\n\t.quorum = "), V(Num(d.quorum)), S("%;")>>
  \o Flat([i \in 1..Len(d.members) |-> <<S("\n\t{ .backend = "), V(BackendRef(d.members[i])), S("; .weight = 1; }")>>])
  \o <<S("\n}\n")>>
\* mechanism of the join: the contents a declaration gets are those of the resource with the same service id and
\* name / resource id, whatever the order of the answers - so a service is rendered from its own resources
RenderService(sv) == Flat([i \in 1..Len(sv.dicts) |-> RenderDict(sv.dicts[i])]) \o Flat([i \in 1..Len(sv.acls) |-> RenderAcl(sv.acls[i])])
Render(c) == CASE c.kind = "dict" -> RenderDict(c) [] c.kind = "acl" -> RenderAcl(c)
               [] c.kind = "backend" -> RenderBackend(c) [] c.kind = "director" -> RenderDirector(c)
               [] c.kind = "multi" -> RenderService(c.services[1])

(* what the parser reads back (mechanism prediction) *)
ReadDict(d) ==
  LET ks == [i \in 1..Len(d.items) |-> ReadStr(VclString(d.items[i].key))]
      vs == [i \in 1..Len(d.items) |-> ReadStr(VclString(d.items[i].value))]
  IN [ok |-> \A i \in 1..Len(d.items) : ks[i].ok /\ vs[i].ok,
      items |-> [i \in 1..Len(d.items) |-> [key |-> ks[i].v, value |-> vs[i].v]]]
ReadAcl(a) ==
  [ok |-> \A i \in 1..Len(a.entries) : ReadStr(VclString(a.entries[i].ip)).ok /\ ReadComment(OneLine(a.entries[i].comment)),
   entries |-> [i \in 1..Len(a.entries) |-> [ip |-> ReadStr(VclString(a.entries[i].ip)).v, negated |-> a.entries[i].negated,
                                              subnet |-> a.entries[i].subnet]]]
ReadBackend(b) ==
  [ok |-> ReadStr(VclString(b.address)).ok, declared |-> <<70, US>> \o Sanitize(b.name), host |-> ReadStr(VclString(b.address)).v]
ReadDirector(d) ==
  [ok |-> \A i \in 1..Len(d.members) : ReadIdent(BackendRef(d.members[i])).ok,
   name |-> Sanitize(d.name), type |-> TypeName(d.type), retries |-> Retries(d), quorum |-> d.quorum,
   refs |-> [i \in 1..Len(d.members) |-> BackendRef(d.members[i])]]

(***************************************************************************)
(* requirement                                                             *)
(***************************************************************************)
RECURSIVE Faithful(_)
Faithful(c) ==
  CASE c.kind = "multi" -> \A i \in 1..Len(c.services) :
                             /\ \A j \in 1..Len(c.services[i].dicts) : Faithful(c.services[i].dicts[j])
                             /\ \A j \in 1..Len(c.services[i].acls) : Faithful(c.services[i].acls[j])
    [] c.kind = "dict" -> LET r == ReadDict(c) IN
         r.ok /\ \A i \in 1..Len(c.items) : r.items[i].key = c.items[i].key /\ r.items[i].value = c.items[i].value
    [] c.kind = "acl" -> LET r == ReadAcl(c) IN
         r.ok /\ \A i \in 1..Len(c.entries) : r.entries[i].ip = c.entries[i].ip /\ r.entries[i].negated = c.entries[i].negated
                                              /\ r.entries[i].subnet = c.entries[i].subnet
    [] c.kind = "backend" -> LET r == ReadBackend(c) IN r.ok /\ r.host = c.address
    [] c.kind = "director" -> LET r == ReadDirector(c) IN
         r.ok /\ r.quorum = c.quorum
         \* membership: every reference names the declaration generated for that backend
         /\ \A i \in 1..Len(c.members) : r.refs[i] = ReadBackend([kind |-> "backend", name |-> c.members[i], address |-> <<104>>]).declared

(* Resources do not come alone: the harness puts a second dictionary / ACL ("decoy", fixed contents) next to *)
(* the generated one on both routes; items and entries must stay with the resource they belong to.       *)
VARIABLE case
Init == case \in Cases
Next == UNCHANGED case
Spec == Init /\ [][Next]_case

AllFaithful == Faithful(case)

ReadBack(c) == CASE c.kind = "dict" -> ReadDict(c) [] c.kind = "acl" -> ReadAcl(c)
                 [] c.kind = "backend" -> ReadBackend(c) [] c.kind = "director" -> ReadDirector(c)
                 [] c.kind = "multi" -> [ok |-> \A i \in 1..Len(c.services) :
                                                  /\ \A j \in 1..Len(c.services[i].dicts) : ReadDict(c.services[i].dicts[j]).ok
                                                  /\ \A j \in 1..Len(c.services[i].acls) : ReadAcl(c.services[i].acls[j]).ok]
EmitInv == PrintT(<<"BEHAVIOUR", ToJson([res |-> case, pieces |-> Render(case), read |-> ReadBack(case), faithful |-> Faithful(case)])>>)
=============================================================================
