SPECIFICATION Spec
CONSTANTS
  MaxLen = 2
  Escaping = "none"
INVARIANTS
  AllFaithful
CHECK_DEADLOCK FALSE
