SPECIFICATION Spec
CONSTANTS
  MaxLen = 2
  Escaping = "pct"
INVARIANTS
  AllFaithful
CHECK_DEADLOCK FALSE
