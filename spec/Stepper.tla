------------------------------ MODULE Stepper ------------------------------
(***************************************************************************)
(* Step debugging of the VCL interpreter: extension X01 (not one of the    *)
(* listed properties C01-C20; part of growing the specification to the     *)
(* rest of the system).                                                    *)
(*                                                                         *)
(* Anchors in ysugimoto/falco:                                             *)
(*   interpreter/statement.go   ProcessBlockStatement, ProcessIfStatement  *)
(*   interpreter/subroutine.go  ProcessSubroutine, ProcessFunctionSubroutine*)
(*   interpreter/expression.go  functional subroutine called in expression *)
(*   dap/debugger.go            Debugger.Run  - DAP front end           *)
(*   debugger/debugger.go       Debugger.Run  - TUI front end           *)
(*   dap/session.go             stopped / output / terminated events       *)
(*                                                                         *)
(* Two layers, as everywhere in this project:                              *)
(*                                                                         *)
(*  REQUIREMENT  what a user of a step debugger is entitled to             *)
(*    (docs/simulator.md "F7 resume execution to the next annotation       *)
(*    comment, F8 step in, F9 step over, F10 step out" and the Debug       *)
(*    Adapter Protocol meaning of continue / stepIn / next / stepOut):     *)
(*    defined over the *execution sequence* of the program, which is       *)
(*    computed denotationally (Denot) and does not mention debug states.   *)
(*                                                                         *)
(*  MECHANISM  what the Go code does: every block loop carries a local     *)
(*    DebugState (frame.ds); the debugger object carries `mode`; a callee  *)
(*    is entered with StepIn only when the block's state is StepIn and     *)
(*    with StepOut otherwise; a frame whose state is StepOut never calls   *)
(*    Debugger.Run; functional subroutines called from expressions are     *)
(*    entered with DebugPass.                                              *)
(*                                                                         *)
(* TLC checks which requirement clauses the mechanism meets (invariants    *)
(* below), proves inside the bounds that the mechanism departs from the    *)
(* requirement only in the ways listed in DevId, and emits every           *)
(* explored behaviour for replay against the real `falco dap` binary.      *)
(***************************************************************************)
EXTENDS Integers, Sequences, FiniteSets, TLC, Json

CONSTANTS MaxStops,     \* after this many stops the user only continues
          MaxBps,       \* at most this many breakpoints per behaviour
          ProgNames,    \* which of the programs below are explored
          Emit          \* print behaviours

(* ------------------------------ programs ------------------------------ *)
S(n)          == [k |-> "set",  n |-> n, sub |-> "", arms |-> <<>>, els |-> <<>>]
C(n, s)       == [k |-> "call", n |-> n, sub |-> s,  arms |-> <<>>, els |-> <<>>]
F(n, s)       == [k |-> "setf", n |-> n, sub |-> s,  arms |-> <<>>, els |-> <<>>]
R(n)          == [k |-> "ret",  n |-> n, sub |-> "", arms |-> <<>>, els |-> <<>>]
V(n)          == [k |-> "retv", n |-> n, sub |-> "", arms |-> <<>>, els |-> <<>>]
E(n)          == [k |-> "err",  n |-> n, sub |-> "", arms |-> <<>>, els |-> <<>>]
A(n, c, body) == [n |-> n, c |-> c, body |-> body]
I(arms, els)  == [k |-> "if",   n |-> arms[1].n, sub |-> "", arms |-> arms, els |-> els]
\* switch whose cases all run, one after the other (fallthrough); arm.n is the id of the case's closing
\* `fallthrough;` / `break;` line, which is a statement of the case body like any other
N(n)          == [k |-> "nop",  n |-> n, sub |-> "", arms |-> <<>>, els |-> <<>>]
SW(n, arms)   == [k |-> "sw",   n |-> n, sub |-> "", arms |-> arms, els |-> <<>>]

Lifecycle == <<"vcl_recv", "vcl_error", "vcl_deliver", "vcl_log">>

\* calls two levels deep, a call inside a nested block, a call in a later lifecycle subroutine
P1 == [ n |-> 20, fns |-> {},
        subs |-> [ vcl_recv    |-> << S(1), C(2, "h1"), S(3),
                                      I(<< A(4, TRUE, << S(5), C(6, "h2"), S(7) >>) >>, <<>>),
                                      S(8), E(9) >>,
                   h1          |-> << S(10), C(11, "h2"), S(12) >>,
                   h2          |-> << S(13), S(14) >>,
                   vcl_error   |-> << S(15), S(16) >>,
                   vcl_deliver |-> << S(17), C(18, "h2"), S(19) >>,
                   vcl_log     |-> << S(20) >> ] ]

\* if / else-if / else chains, a bare return inside a nested block, an error statement inside a callee
P2 == [ n |-> 29, fns |-> {},
        subs |-> [ vcl_recv    |-> << S(1),
                                      I(<< A(2, FALSE, << S(3) >>), A(4, FALSE, << S(5) >>),
                                           A(6, TRUE, << S(7), S(8) >>) >>, << S(9) >>),
                                      C(10, "g1"), S(11), C(12, "g2"), S(13), E(14) >>,
                   g1          |-> << S(15), I(<< A(16, TRUE, << S(17), R(18), S(19) >>) >>, <<>>), S(20) >>,
                   g2          |-> << S(21), I(<< A(22, FALSE, << S(23) >>) >>, << S(24), E(25) >>), S(26) >>,
                   vcl_error   |-> << S(27) >>,
                   vcl_deliver |-> << S(28) >>,
                   vcl_log     |-> << S(29) >> ] ]

\* functional subroutines called from expressions
P3 == [ n |-> 17, fns |-> {"f1"},
        subs |-> [ vcl_recv    |-> << S(1), F(2, "f1"), S(3), C(4, "k1"), E(5) >>,
                   f1          |-> << S(6), I(<< A(7, TRUE, << V(8) >>) >>, <<>>), S(9), V(10) >>,
                   k1          |-> << S(11), F(12, "f1"), S(13) >>,
                   vcl_error   |-> << F(14, "f1"), S(15) >>,
                   vcl_deliver |-> << S(16) >>,
                   vcl_log     |-> << S(17) >> ] ]

\* else-if arms that are all false, an else branch with a call, nested ifs
P4 == [ n |-> 18, fns |-> {},
        subs |-> [ vcl_recv    |-> << I(<< A(1, FALSE, << S(2) >>), A(3, FALSE, << S(4) >>) >>, << S(5), C(6, "m1") >>),
                                      I(<< A(7, TRUE, << I(<< A(8, TRUE, << S(9), C(10, "m1") >>) >>, <<>>), S(11) >>) >>, <<>>),
                                      E(12) >>,
                   m1          |-> << S(13), S(14) >>,
                   vcl_error   |-> << S(15) >>,
                   vcl_deliver |-> << I(<< A(16, FALSE, << S(17) >>) >>, <<>>) >>,
                   vcl_log     |-> << S(18) >> ] ]

\* a call statement directly in the body of a functional subroutine (its own copy of the call-site code)
P5 == [ n |-> 16, fns |-> {"f2"},
        subs |-> [ vcl_recv    |-> << S(1), F(2, "f2"), C(3, "q1"), E(4) >>,
                   f2          |-> << S(5), C(6, "q2"), S(7), V(8) >>,
                   q1          |-> << S(9), F(10, "f2"), S(11) >>,
                   q2          |-> << S(12), S(13) >>,
                   vcl_error   |-> << S(14) >>,
                   vcl_deliver |-> << S(15) >>,
                   vcl_log     |-> << S(16) >> ] ]

\* a switch with two cases joined by fallthrough, a call inside a case
P6 == [ n |-> 15, fns |-> {},
        subs |-> [ vcl_recv    |-> << S(1), SW(2, << A(5, TRUE, << S(3), C(4, "w1") >>), A(8, TRUE, << S(6), S(7) >>) >>), S(9), E(10) >>,
                   w1          |-> << S(11), S(12) >>,
                   vcl_error   |-> << S(13) >>,
                   vcl_deliver |-> << S(14) >>,
                   vcl_log     |-> << S(15) >> ] ]

Programs == [ P1 |-> P1, P2 |-> P2, P3 |-> P3, P4 |-> P4, P5 |-> P5, P6 |-> P6 ]

VARIABLES prog, bps, top, stack, mode, hist, exec, mex, done
vars == <<prog, bps, top, stack, mode, hist, exec, mex, done>>

Prog    == Programs[prog]
Body(s) == Prog.subs[s]
Cmds    == {"Pass", "In", "Over", "Out"}          \* continue, stepIn, next, stepOut
CmdsNow == IF Len(hist) < MaxStops THEN Cmds ELSE {"Pass"}

(* ------------------- requirement: execution sequence ------------------- *)
\* Denotational execution of a block: the sequence of debugger-visible visits (block statements and
\* evaluated else-if arms) with their call depth, and how the block ended.
RECURSIVE DBlock(_, _, _, _), DArms(_, _, _, _, _), DCases(_, _, _, _, _)
DStmt(p, st, d, t) ==
  LET me == << [n |-> st.n, d |-> d, top |-> t, k |-> st.k] >> IN
  CASE st.k = "set"  -> [s |-> me, e |-> "none"]
    [] st.k = "nop"  -> [s |-> me, e |-> "none"]
    [] st.k = "sw"   -> LET r == DCases(p, st, 1, d, t) IN [s |-> me \o r.s, e |-> r.e]
    [] st.k = "ret"  -> [s |-> me, e |-> "ret"]
    [] st.k = "retv" -> [s |-> me, e |-> "ret"]
    [] st.k = "err"  -> [s |-> me, e |-> "err"]
    [] st.k \in {"call", "setf"} ->
         LET r == DBlock(p, Programs[p].subs[st.sub], d + 1, t)
         IN  [s |-> me \o r.s, e |-> IF r.e = "err" THEN "err" ELSE "none"]
    [] st.k = "if"   ->
         LET r == DArms(p, st, 1, d, t) IN [s |-> me \o r.s, e |-> r.e]
DArms(p, st, ai, d, t) ==
  IF ai > Len(st.arms) THEN DBlock(p, st.els, d, t)
  ELSE LET arm == st.arms[ai]
           me  == IF ai = 1 THEN <<>> ELSE << [n |-> arm.n, d |-> d, top |-> t, k |-> "elif"] >>
       IN  IF arm.c THEN LET r == DBlock(p, arm.body, d, t) IN [s |-> me \o r.s, e |-> r.e]
           ELSE LET r == DArms(p, st, ai + 1, d, t) IN [s |-> me \o r.s, e |-> r.e]
DCases(p, st, ai, d, t) ==
  IF ai > Len(st.arms) THEN [s |-> <<>>, e |-> "none"]
  ELSE LET r == DBlock(p, st.arms[ai].body \o << N(st.arms[ai].n) >>, d, t) IN
       IF r.e # "none" THEN r
       ELSE LET q == DCases(p, st, ai + 1, d, t) IN [s |-> r.s \o q.s, e |-> q.e]
DBlock(p, b, d, t) ==
  IF b = <<>> THEN [s |-> <<>>, e |-> "none"]
  ELSE LET r == DStmt(p, Head(b), d, t) IN
       IF r.e # "none" THEN r
       ELSE LET q == DBlock(p, Tail(b), d, t) IN [s |-> r.s \o q.s, e |-> q.e]
RECURSIVE DTop(_, _)
DTop(p, t) == IF t > Len(Lifecycle) THEN <<>>
              ELSE DBlock(p, Programs[p].subs[Lifecycle[t]], 0, t).s \o DTop(p, t + 1)
DenotAll == [p \in DOMAIN Programs |-> DTop(p, 1)]      \* constant: evaluated once
Denot(p) == DenotAll[p]

(* ------------------- requirement: where the next stop is ---------------- *)
\* The user is stopped at position p of the execution sequence x (0 = before the request) and issues cmd.
\* Breakpoints are always honoured; a step command additionally stops at the statement it names.
ReqNext(x, B, p, cmd) ==
  LET cand == { q \in (p + 1)..Len(x) :
                  \/ x[q].n \in B
                  \/ cmd = "In"
                  \/ cmd = "Over" /\ (x[q].top > x[p].top \/ x[q].d <= x[p].d)
                  \/ cmd = "Out"  /\ (x[q].top > x[p].top \/ x[q].d <  x[p].d) }
  IN  IF cand = {} THEN 0 ELSE CHOOSE q \in cand : \A r \in cand : q <= r

(* ------------------------------ mechanism ------------------------------ *)
\* og = where a frame's StepOut state comes from: "call" (entered by a call that was not stepped into),
\*      "cmd" (the user pressed step-out while stopped in this frame), "" (the frame is not in StepOut)
Frame(t, b, ds, og, d) == [t |-> t, b |-> b, pc |-> 1, ds |-> ds, og |-> og, d |-> d, arms |-> <<>>, els |-> <<>>, ai |-> 0]
SelFrame(st, ds, og, d) == [t |-> "sel", b |-> <<>>, pc |-> 1, ds |-> ds, og |-> og, d |-> d, arms |-> st.arms, els |-> st.els, ai |-> 1]
Top(stk) == stk[Len(stk)]
Front(stk) == SubSeq(stk, 1, Len(stk) - 1)
RECURSIVE PopSub(_)
PopSub(stk) == IF stk = <<>> THEN <<>>
               ELSE IF Top(stk).t \in {"sub", "fn"} THEN Front(stk) ELSE PopSub(Front(stk))
InFn(stk) == \E i \in 1..Len(stk) : stk[i].t = "fn"

\* `if debugState != DebugStepOut { debugState = i.Debugger.Run(stmt) }` with Debugger.Run inlined
Outcomes(n, ds) ==
  IF ds = "Out" THEN { [ds |-> "Out", mode |-> mode, stop |-> FALSE, why |-> "", cmd |-> ""] }
  ELSE IF mode \in {"In", "Over", "Out"}
       THEN { [ds |-> c, mode |-> c, stop |-> TRUE, why |-> "step", cmd |-> c] : c \in CmdsNow }
  ELSE IF n \in bps
       THEN { [ds |-> c, mode |-> c, stop |-> TRUE, why |-> "breakpoint", cmd |-> c] : c \in CmdsNow }
  ELSE { [ds |-> "Pass", mode |-> "Pass", stop |-> FALSE, why |-> "", cmd |-> ""] }
\* origin of the frame's StepOut state after the visit
Og(f, o) == IF o.ds # "Out" THEN "" ELSE IF f.ds = "Out" THEN f.og ELSE "cmd"

Record(f, o, n, k) ==
  /\ mode' = o.mode
  /\ exec' = Append(exec, [n |-> n, d |-> f.d, top |-> top, k |-> k])
  /\ mex'  = Append(mex, [out |-> f.ds = "Out", og |-> IF f.ds = "Out" THEN f.og ELSE "", infn |-> InFn(stack)])
  /\ hist' = IF o.stop THEN Append(hist, [n |-> n, why |-> o.why, cmd |-> o.cmd, pos |-> Len(exec) + 1]) ELSE hist

Visit ==
  /\ stack # <<>> /\ Top(stack).t \notin {"sel", "swq"} /\ Top(stack).pc <= Len(Top(stack).b)
  /\ LET f == Top(stack)  st == f.b[f.pc] IN
     \E o \in Outcomes(st.n, f.ds) :
       LET og   == Og(f, o)
           base == [stack EXCEPT ![Len(stack)] = [f EXCEPT !.pc = @ + 1, !.ds = o.ds, !.og = og]] IN
       /\ Record(f, o, st.n, st.k)
       /\ stack' = CASE st.k \in {"set", "nop"} -> base
                     \* ProcessSwitchStatement hands every case body the state the switch statement itself got
                     [] st.k = "sw"   -> Append(base, [SelFrame(st, o.ds, og, f.d) EXCEPT !.t = "swq"])
                     [] st.k = "call" -> Append(base, IF o.ds = "In" THEN Frame("sub", Body(st.sub), "In", "", f.d + 1)
                                                      ELSE Frame("sub", Body(st.sub), "Out", "call", f.d + 1))
                     [] st.k = "setf" -> Append(base, Frame("fn", Body(st.sub), "Pass", "", f.d + 1))
                     [] st.k = "if"   -> Append(base, SelFrame(st, o.ds, og, f.d))
                     [] st.k \in {"ret", "retv"} -> PopSub(base)
                     [] st.k = "err"  -> <<>>
  /\ UNCHANGED <<prog, bps, top, done>>

Sel ==
  /\ stack # <<>> /\ Top(stack).t = "sel"
  /\ LET f == Top(stack) IN
     IF f.ai > Len(f.arms)
     THEN /\ stack' = [stack EXCEPT ![Len(stack)] = Frame("blk", f.els, f.ds, f.og, f.d)]
          /\ UNCHANGED <<mode, hist, exec, mex>>
     ELSE LET arm == f.arms[f.ai] IN
          IF f.ai = 1
          THEN /\ stack' = [stack EXCEPT ![Len(stack)] =
                               IF arm.c THEN Frame("blk", arm.body, f.ds, f.og, f.d) ELSE [f EXCEPT !.ai = 2]]
               /\ UNCHANGED <<mode, hist, exec, mex>>
          ELSE \E o \in Outcomes(arm.n, f.ds) :
                 /\ Record(f, o, arm.n, "elif")
                 /\ stack' = [stack EXCEPT ![Len(stack)] =
                                 IF arm.c THEN Frame("blk", arm.body, o.ds, Og(f, o), f.d)
                                 ELSE [f EXCEPT !.ai = @ + 1, !.ds = o.ds, !.og = Og(f, o)]]
  /\ UNCHANGED <<prog, bps, top, done>>

SwNext ==      \* the next case body (fallthrough), as a block of its own that starts from the switch's state
  /\ stack # <<>> /\ Top(stack).t = "swq"
  /\ LET f == Top(stack) IN
     IF f.ai > Len(f.arms) THEN stack' = Front(stack)
     ELSE stack' = Append([stack EXCEPT ![Len(stack)] = [f EXCEPT !.ai = @ + 1]],
                          Frame("blk", f.arms[f.ai].body \o << N(f.arms[f.ai].n) >>, f.ds, f.og, f.d))
  /\ UNCHANGED <<prog, bps, top, mode, hist, exec, mex, done>>

Pop ==
  /\ stack # <<>> /\ Top(stack).t \notin {"sel", "swq"} /\ Top(stack).pc > Len(Top(stack).b)
  /\ stack' = Front(stack)
  /\ UNCHANGED <<prog, bps, top, mode, hist, exec, mex, done>>

NextTop ==     \* the lifecycle enters the next subroutine with ProcessSubroutine(sub, DebugPass, nil)
  /\ stack = <<>> /\ top < Len(Lifecycle)
  /\ top' = top + 1
  /\ stack' = << Frame("sub", Body(Lifecycle[top + 1]), "Pass", "", 0) >>
  /\ UNCHANGED <<prog, bps, mode, hist, exec, mex, done>>

Finish ==
  /\ stack = <<>> /\ top = Len(Lifecycle) /\ ~done
  /\ done' = TRUE
  /\ UNCHANGED <<prog, bps, top, stack, mode, hist, exec, mex>>

BpSets(n) == { {} } \cup { {a} : a \in 1..n }
             \cup (IF MaxBps >= 2 THEN { {a, b} : a, b \in 1..n } ELSE {})
             \cup (IF MaxBps >= 3 THEN { {a, b, c} : a, b, c \in 1..n } ELSE {})

Init ==
  /\ prog \in ProgNames
  /\ bps \in BpSets(Programs[prog].n)
  /\ top = 0 /\ stack = <<>> /\ mode = "Pass" /\ hist = <<>> /\ exec = <<>> /\ mex = <<>> /\ done = FALSE

Next == Visit \/ Sel \/ SwNext \/ Pop \/ NextTop \/ Finish
Spec == Init /\ [][Next]_vars

(* ------------------------------ properties ----------------------------- *)
Logs(x, q) == Cardinality({ j \in 1..(q - 1) : x[j].k = "set" })     \* log lines printed before visit q

\* the mechanism's k-th stop position (0 = start) and command
MPos(k) == IF k = 0 THEN 0 ELSE hist[k].pos
MCmd(k) == IF k = 0 THEN "Pass" ELSE hist[k].cmd
MNext(k) == IF k < Len(hist) THEN hist[k + 1].pos ELSE 0
RNext(k) == ReqNext(exec, bps, MPos(k), MCmd(k))

Rel(q, p) == LET dp == IF p = 0 THEN 0 ELSE exec[p].d IN
             IF p # 0 /\ exec[q].top > exec[p].top THEN "later"
             ELSE IF exec[q].d > dp THEN "deeper" ELSE IF exec[q].d < dp THEN "shallower" ELSE "same"

\* How step k+1 of the mechanism departs from the requirement (only meaningful when done).
\* A required stop can only be skipped because its frame ran in StepOut (Run is not called there): og says why.
DevRaw(k) ==
  LET m == MNext(k)  r == RNext(k)  p == MPos(k)
      none == [dev |-> "none", cmd |-> MCmd(k), why |-> "", og |-> "", infn |-> FALSE, rel |-> ""] IN
  IF m = r THEN none
  ELSE IF r # 0 /\ (m = 0 \/ r < m)
       THEN [dev |-> "skipped", cmd |-> MCmd(k), why |-> IF exec[r].n \in bps THEN "breakpoint" ELSE "step",
             og |-> mex[r].og, infn |-> (p # 0 /\ mex[p].infn), rel |-> Rel(r, p)]
       ELSE [dev |-> "early", cmd |-> MCmd(k), why |-> hist[k + 1].why,
             og |-> "", infn |-> mex[m].infn, rel |-> Rel(m, p)]

\* The ways in which the mechanism is known (and shown on the real binary) to depart from the requirement.
DevId(c) ==
  CASE c.dev = "none" -> "none"
    \* K1  a breakpoint inside a subroutine entered by `call` is not hit unless the call was stepped into
    \*     (a callee frame runs with StepOut whenever the caller's state is not StepIn - even under continue)
    [] c.dev = "skipped" /\ c.why = "breakpoint" /\ c.og = "call" -> "K1"
    \* K2  after step-out, breakpoints in the rest of that frame are ignored
    [] c.dev = "skipped" /\ c.why = "breakpoint" /\ c.og = "cmd" -> "K2"
    \* K3  after a stop inside a functional subroutine that was reached through a frame in StepOut, step
    \*     commands do not stop in the rest of that frame
    [] c.dev = "skipped" /\ c.why = "step" /\ c.infn -> "K3"
    \* K4  step-out inside a nested block stops at the next statement of the same subroutine
    [] c.dev = "early" /\ c.cmd = "Out" /\ c.why = "step" /\ c.rel = "same" /\ ~c.infn -> "K4"
    \* K5  step-over / step-out stop inside a functional subroutine called from an expression
    [] c.dev = "early" /\ c.cmd \in {"Over", "Out"} /\ c.why = "step" /\ c.infn -> "K5"
    [] OTHER -> "unknown"
Dev(k) == LET c == DevRaw(k) IN [id |-> DevId(c), dev |-> c.dev, cmd |-> c.cmd, why |-> c.why, og |-> c.og, infn |-> c.infn, rel |-> c.rel]

TypeOK ==
  /\ mode \in Cmds /\ top \in 0..Len(Lifecycle) /\ done \in BOOLEAN
  /\ Len(stack) <= 12 /\ Len(mex) = Len(exec)
  /\ \A i \in 1..Len(stack) : /\ stack[i].ds \in Cmds /\ stack[i].t \in {"sub", "fn", "blk", "sel", "swq"}
                              /\ (stack[i].ds = "Out") = (stack[i].og # "")

\* debugging is transparent: the statements executed do not depend on breakpoints or commands
Transparent == done => exec = Denot(prog)
ExecPrefix  == Len(exec) <= Len(Denot(prog)) /\ exec = SubSeq(Denot(prog), 1, Len(exec))

StopsInOrder   == \A k \in 1..(Len(hist) - 1) : hist[k].pos < hist[k + 1].pos
BreakpointReal == \A k \in 1..Len(hist) : hist[k].why = "breakpoint" => hist[k].n \in bps
\* a stop never happens in a frame that runs in StepOut
NoStopInOut    == \A k \in 1..Len(hist) : ~mex[hist[k].pos].out
\* a required stop is skipped only in a frame that runs in StepOut
SkipOnlyInOut  == done => \A k \in 0..Len(hist) : DevRaw(k).dev = "skipped" => mex[RNext(k)].out
\* after continue only a breakpoint stops
ContinueOnlyBp == \A k \in 0..(Len(hist) - 1) : MCmd(k) = "Pass" => hist[k + 1].why = "breakpoint"
\* step-in stops at the very next visit, whatever it is (programs without functional subroutines)
StepInExact    == done /\ Programs[prog].fns = {} => \A k \in 1..Len(hist) : hist[k].cmd = "In" =>
                     IF hist[k].pos = Len(exec) THEN k = Len(hist) ELSE k < Len(hist) /\ hist[k + 1].pos = hist[k].pos + 1
\* without breakpoints and functional subroutines step-over is exactly the requirement
StepOverMeets  == done => \A k \in 1..Len(hist) : hist[k].cmd = "Over" /\ Programs[prog].fns = {} /\ bps = {} =>
                     MNext(k) = RNext(k)
\* every departure from the requirement is one of the listed classes
OnlyKnownDevs  == done => \A k \in 0..Len(hist) : Dev(k).id # "unknown"

\* exploration aid: print every departure that is not classified (always true)
DevReport      == done => \A k \in 0..Len(hist) : Dev(k).id # "unknown" \/ PrintT(<<"DEV", ToJson([c |-> Dev(k), prog |-> prog, bps |-> bps, k |-> k, hist |-> hist])>>)

\* requirement met outright for the first stop under continue when every breakpoint is in a lifecycle subroutine body
FirstStopFlat  == done /\ bps # {} /\ (\A q \in 1..Len(exec) : exec[q].n \in bps => exec[q].d = 0) =>
                     MNext(0) = RNext(0)

(* ------------------------------ emission ------------------------------- *)
Beh == [ prog  |-> prog,
         bps   |-> bps,
         stops |-> [k \in 1..Len(hist) |-> [n |-> hist[k].n, why |-> hist[k].why, cmd |-> hist[k].cmd,
                                              logs |-> Logs(exec, hist[k].pos), d |-> exec[hist[k].pos].d]],
         req   |-> [k \in 1..(Len(hist) + 1) |->
                       LET r == RNext(k - 1) IN
                       IF r = 0 THEN [n |-> 0, logs |-> 0] ELSE [n |-> exec[r].n, logs |-> Logs(exec, r)]],
         dev   |-> [k \in 1..(Len(hist) + 1) |-> Dev(k - 1)],
         logs  |-> SelectSeq([j \in 1..Len(exec) |-> IF exec[j].k = "set" THEN exec[j].n ELSE 0], LAMBDA v : v # 0) ]

EmitInv == (Emit /\ done) => PrintT(<<"BEHAVIOUR", ToJson(Beh)>>)

\* the program texts are emitted by TLC too, so the harness renders VCL from the specification's own data
ProgJson == PrintT(<<"PROGRAMS", ToJson([p \in DOMAIN Programs |-> [subs |-> Programs[p].subs, fns |-> Programs[p].fns, n |-> Programs[p].n]])>>)
=============================================================================
