SPECIFICATION Spec
CONSTANTS
  MaxStops = 3
  MaxBps = 1
  ProgNames = {"P1", "P2", "P3", "P4", "P5", "P6"}
  Emit = TRUE
INVARIANTS
  EmitInv
CHECK_DEADLOCK FALSE
