------------------------------- MODULE Tester -------------------------------
(***************************************************************************)
(* `falco test` as a state machine: one run of the tester over a test file *)
(* that holds a sequence of ungrouped test subroutines, against a main VCL, *)
(* with coverage measurement on or off.                                    *)
(*                                                                         *)
(* Two layers (DESIGN.md section 1, C10):                                  *)
(*   requirement  Req(t, k): verdict and logs of case k of test t when t   *)
(*                is run ALONE, on a fresh interpreter, against the main   *)
(*                VCL as written; failed <=> an assertion is false or a    *)
(*                runtime error is raised; Summary, ExitReq.               *)
(*   mechanism    tester/tester.go run(): one action per step of the loop  *)
(*                over vcl.Statements - Setup (setupInterpreter +          *)
(*                TestProcessInit: fresh interpreter, function.Inject of   *)
(*                closures bound to it, coverage instrumentation of the    *)
(*                main VCL as interpreter/coverage.go rewrites it),        *)
(*                RunScope (one case per @scope; the interpreter is shared *)
(*                by the scopes of one test; the counter of               *)
(*                tester/shared/counter.go is bumped by every assertion    *)
(*                and once more by the tester for a failed case),          *)
(*                exit status from counter.Fails (cmd/falco/main.go).      *)
(* TLC checks mechanism |= requirement over every sequence of <= MaxLen    *)
(* distinct tests of Pool x coverage, and prints for every sequence the    *)
(* predicted per-case verdicts, logs, summary, counter and exit status;    *)
(* the replayer (harness/cmd/vhc10) runs the concrete files through        *)
(* tester.New(..).Run and through the real binary.                         *)
(***************************************************************************)
EXTENDS Naturals, Sequences, FiniteSets, TLC, Json

CONSTANTS MaxLen,      \* tests per file
          Pool,        \* names of the tests to draw from (subset of DOMAIN Tests)
          Coverages,   \* subset of BOOLEAN
          MainIds,     \* which main VCL variants to run against
          EmitAll,     \* TRUE: every prefix is a test file of its own; FALSE: only files of MaxLen tests
          MaxFam       \* at most this many constant-argument "family" tests per file

NOTSET == "<notset>"
Str(v) == IF v = NOTSET THEN "(null)" ELSE v      \* a not-set STRING inside a concatenation

(***************************************************************************)
(* Abstract syntax of the main VCL (rendered to text by the harness).      *)
(* Every statement carries an id - the stand-in for its token position,    *)
(* from which coverage.go derives marker ids.                              *)
(***************************************************************************)
Lit(v)       == [k |-> "lit", v |-> v]
Hd(h)        == [k |-> "hdr", h |-> h]                      \* req.http.<h>
Cat(l, r)    == [k |-> "cat", l |-> l, r |-> r]             \* l r  (juxtaposition)
IfE(id, c, a, b) == [k |-> "ife", id |-> id, c |-> c, a |-> a, b |-> b]   \* if(c, a, b)
FnE(f)       == [k |-> "fn", f |-> f]                       \* f()  - functional subroutine, STRING
Eq(h, v)     == [k |-> "eq", h |-> h, v |-> v]              \* req.http.<h> == "<v>"
FnC(f)       == [k |-> "fnc", f |-> f]                      \* f()  - functional subroutine, BOOL
IsSet(h)     == [k |-> "isset", h |-> h]                    \* req.http.<h>          - true iff the header is set
InAcl(h)     == [k |-> "acl", h |-> h]                      \* req.http.<h> ~ internal - a runtime error unless the
                                                            \*   header holds an address (not set, or not an address)

Set(id, h, e)  == [k |-> "set", id |-> id, h |-> h, e |-> e]
Log(id, e)     == [k |-> "log", id |-> id, e |-> e]
If(id, c, th, elifs, hasElse, el) ==
  [k |-> "if", id |-> id, c |-> c, th |-> th, elifs |-> elifs, hasElse |-> hasElse, el |-> el]
Elif(c, body)  == [c |-> c, body |-> body]
Switch(id, h, cases) == [k |-> "switch", id |-> id, h |-> h, cases |-> cases]
Case(m, body, ft)    == [m |-> m, body |-> body, ft |-> ft]   \* m = "<default>" for default:
Ret(id, st)    == [k |-> "ret", id |-> id, st |-> st]       \* return(<state>);
RetV(id, e)    == [k |-> "retv", id |-> id, e |-> e]        \* return <expr>;
Call(id, s)    == [k |-> "call", id |-> id, s |-> s]
Err(id, code)  == [k |-> "error", id |-> id, code |-> code]
Restart(id)    == [k |-> "restart", id |-> id]
RetBare(id)    == [k |-> "retbare", id |-> id]              \* return;  - leaves the subroutine, names no state
Mark(kind, id) == [k |-> "mark", kind |-> kind, id |-> id]  \* coverage.<kind>("<id>");

Sub(ty, body)  == [ty |-> ty, body |-> body]                \* ty: "scoped" | "BOOL" | "STRING"

(* main VCL 1: else-if chain, switch with fallthrough, pure if-expression, functional subroutine with an *)
(* else-if chain that returns values, a mockable helper, state-changing statements; vcl_deliver holds the *)
(* if-expression whose condition has a side effect.                                                      *)
Main1 ==
  [ bump  |-> Sub("BOOL",   << Set("b1", "N", Cat(Hd("N"), Lit("i"))), RetV("b2", Lit("true")) >>),
    pick  |-> Sub("STRING", << If("p1", Eq("A", "1"), << RetV("p2", Lit("one")) >>,
                                   << Elif(Eq("A", "2"), << RetV("p3", Lit("two")) >>) >>,
                                   TRUE, << RetV("p4", Lit("other")) >>) >>),
    helper |-> Sub("scoped", << Set("h1", "H", Lit("orig")) >>),
    \* nested if() expressions and nested if statements whose inner condition is only safe under the outer guard
    zone  |-> Sub("scoped", <<
        Set("z1", "Zone", IfE("z1e", IsSet("C"), IfE("z1f", InAcl("C"), Lit("internal"), Lit("external")), Lit("unknown"))),
        If("z2", IsSet("C"), << If("z3", InAcl("C"), << Set("z4", "Zs", Lit("in")) >>, << >>, TRUE, << Set("z5", "Zs", Lit("out")) >>) >>,
           << >>, TRUE, << Set("z6", "Zs", Lit("none")) >>),
        Set("z7", "Zalt", IfE("z7e", Eq("A", "1"), Lit("a1"), IfE("z7f", InAcl("C"), Lit("i"), Lit("e")))) >>),
    vcl_recv |-> Sub("scoped", <<
        If("r1", Eq("A", "1"), << Set("r2", "R", Lit("a")) >>,
           << Elif(Eq("A", "2"), << Set("r3", "R", Lit("b")) >>),
              Elif(Eq("A", "3"), << Set("r4", "R", Lit("c")) >>) >>,
           TRUE, << Set("r5", "R", Lit("d")) >>),
        Switch("r6", "S", <<
           Case("x", << Set("r7", "T", Lit("x")) >>, TRUE),
           Case("y", << Set("r8", "T", Cat(Hd("T"), Lit("y"))) >>, FALSE),
           Case("<default>", << Set("r9", "T", Lit("d")) >>, FALSE) >>),
        Set("r10", "E", IfE("r10e", Eq("A", "1"), Lit("t"), Lit("f"))),
        Set("r11", "V", FnE("pick")),
        Call("r12", "helper"),
        Log("r13", Cat(Lit("recv "), Hd("R"))),
        If("r14", Eq("Z", "err"), << Err("r15", 601) >>, << >>, FALSE, << >>),
        If("r16", Eq("Z", "restart"), << Restart("r17") >>, << >>, FALSE, << >>),
        If("r18", Eq("Z", "pass"), << Ret("r19", "PASS") >>, << >>, FALSE, << >>),
        Ret("r20", "LOOKUP") >>),
    \* ways of leaving a subroutine without naming a state, and a runtime error at every position of a body
    bare  |-> Sub("scoped", << Set("q1", "Bare", Lit("1")),
                               If("q2", Eq("Z", "late"), << >>, << >>, TRUE, << RetBare("q3") >>),
                               Set("q4", "Bare", Lit("2")) >>),
    boom  |-> Sub("scoped", <<
        If("o1", Eq("B", "then"), << Set("o2", "Q", IfE("o2e", InAcl("Nope"), Lit("a"), Lit("b"))) >>,
           << Elif(Eq("B", "elif"), << Set("o3", "Q", IfE("o3e", InAcl("Nope"), Lit("a"), Lit("b"))) >>) >>,
           TRUE, << If("o4", Eq("B", "nested"), << If("o5", IsSet("B"), << Set("o6", "Q", IfE("o6e", InAcl("Nope"), Lit("a"), Lit("b"))) >>,
                                                      << >>, FALSE, << >>) >>, << >>, FALSE, << >>),
                    If("o7", Eq("B", "else"), << >>, << >>, FALSE, << >>) >>),
        Switch("o8", "B", << Case("case", << Set("o9", "Q", IfE("o9e", InAcl("Nope"), Lit("a"), Lit("b"))) >>, FALSE),
                             Case("<default>", << >>, FALSE) >>),
        If("o10", Eq("B", "helper"), << Call("o11", "boomhelper") >>, << >>, FALSE, << >>),
        Set("o12", "Bdone", Lit("1")) >>),
    boomhelper |-> Sub("scoped", << If("u1", IsSet("B"), << Set("u2", "Q", IfE("u2e", InAcl("Nope"), Lit("a"), Lit("b"))) >>, << >>, FALSE, << >>) >>),
    vcl_deliver |-> Sub("scoped", <<
        Set("d1", "E", IfE("d1e", FnC("bump"), Lit("t"), Lit("f"))),
        Log("d2", Lit("deliver")),
        Ret("d3", "DELIVER") >>)
  ]

(* main VCL 2: same interface, different shapes - switch nested in an else-if arm, if inside a case body, *)
(* an else-if chain without else, if-expression nested in a concatenation, a functional subroutine whose  *)
(* value comes out of a switch.                                                                           *)
Main2 ==
  [ bump  |-> Sub("BOOL",   << Set("b1", "N", Cat(Hd("N"), Lit("i"))),
                               If("b2", Eq("N", "(null)ii"), << RetV("b3", Lit("false")) >>, << >>, FALSE, << >>),
                               RetV("b4", Lit("true")) >>),
    pick  |-> Sub("STRING", << Switch("p1", "A", <<
                                   Case("1", << RetV("p2", Lit("one")) >>, FALSE),
                                   Case("2", << RetV("p3", Lit("two")) >>, FALSE),
                                   Case("<default>", << RetV("p4", Lit("other")) >>, FALSE) >>),
                               RetV("p5", Lit("unreachable")) >>),
    helper |-> Sub("scoped", << If("h0", Eq("A", "9"), << Set("h2", "H", Lit("nine")) >>,
                                   << Elif(Eq("A", "8"), << Set("h3", "H", Lit("eight")) >>) >>, FALSE, << >>),
                                Set("h1", "H", Lit("orig")) >>),
    zone  |-> Sub("scoped", <<
        Set("z1", "Zone", Cat(Lit("z="), IfE("z1e", IsSet("C"), IfE("z1f", InAcl("C"), Lit("internal"), Lit("external")), Lit("unknown")))),
        Switch("z2", "A", <<
           Case("1", << Set("z3", "Zs", IfE("z3e", IsSet("C"), IfE("z3f", InAcl("C"), Lit("in"), Lit("out")), Lit("none"))) >>, FALSE),
           Case("<default>", << If("z4", IsSet("C"), << If("z5", FnC("bump"), << Set("z6", "Zs", Lit("set")) >>, << >>, FALSE, << >>) >>,
                                   << >>, TRUE, << Set("z8", "Zs", Lit("none")) >>) >>, FALSE) >>),
        Log("z9", Cat(Lit("zone "), IfE("z9e", Eq("A", "1"), Lit("a1"), IfE("z9f", InAcl("C"), Lit("i"), Lit("e"))))),
        Set("z7", "Zalt", IfE("z7e", Eq("A", "1"), Lit("a1"), IfE("z7f", InAcl("C"), Lit("i"), Lit("e")))) >>),
    vcl_recv |-> Sub("scoped", <<
        Set("r0", "R", Lit("d")),
        If("r1", Eq("A", "1"), << Set("r2", "R", Lit("a")) >>,
           << Elif(Eq("A", "2"), << Set("r3", "R", Lit("b")),
                                    Switch("r6", "S", <<
                                       Case("x", << Set("r7", "T", Lit("x")) >>, TRUE),
                                       Case("y", << Set("r8", "T", Cat(Hd("T"), Lit("y"))) >>, FALSE) >>) >>),
              Elif(Eq("A", "3"), << Set("r4", "R", Lit("c")) >>) >>,
           FALSE, << >>),
        Switch("r21", "S", <<
           Case("<default>", << Set("r9", "T", Cat(Hd("T"), Lit("d"))) >>, FALSE),
           Case("y", << If("r22", Eq("A", "2"), << Set("r23", "T", Cat(Hd("T"), Lit("!"))) >>, << >>,
                           TRUE, << Set("r24", "T", Lit("y")) >>) >>, FALSE),
           Case("x", << >>, FALSE) >>),
        Set("r10", "E", Cat(Lit("e="), IfE("r10e", Eq("A", "1"), Lit("t"), Lit("f")))),
        Set("r11", "V", FnE("pick")),
        Call("r12", "helper"),
        Log("r13", Cat(Lit("recv "), Hd("R"))),
        If("r14", Eq("Z", "err"), << Err("r15", 601) >>,
           << Elif(Eq("Z", "restart"), << Restart("r17") >>),
              Elif(Eq("Z", "pass"), << Ret("r19", "PASS") >>) >>, FALSE, << >>),
        Ret("r20", "LOOKUP") >>),
    bare  |-> Sub("scoped", << If("q2", Eq("Z", "late"), << Set("q1", "Bare", Lit("1")) >>, << >>, TRUE,
                                  << Set("q5", "Bare", Lit("1")), Switch("q6", "Z", << Case("<default>", << RetBare("q3") >>, FALSE) >>) >>),
                               Set("q4", "Bare", Lit("2")) >>),
    boom  |-> Sub("scoped", <<
        Switch("o8", "B", <<
           Case("then", << If("o1", IsSet("B"), << Log("o2", IfE("o2e", InAcl("Nope"), Lit("a"), Lit("b"))) >>, << >>, FALSE, << >>) >>, FALSE),
           Case("elif", << If("o13", Eq("B", "x"), << >>, << Elif(IsSet("B"), << Set("o3", "Q", Cat(Lit("q"), IfE("o3e", InAcl("Nope"), Lit("a"), Lit("b")))) >>) >>, FALSE, << >>) >>, FALSE),
           Case("nested", << If("o4", IsSet("B"), << If("o5", Eq("B", "x"), << >>, << >>, TRUE,
                                  << Set("o6", "Q", IfE("o6e", InAcl("Nope"), Lit("a"), Lit("b"))) >>) >>, << >>, FALSE, << >>) >>, FALSE),
           Case("case", << Set("o9", "Q", IfE("o9e", InAcl("Nope"), Lit("a"), Lit("b"))) >>, TRUE),
           Case("helper", << Call("o11", "boomhelper") >>, FALSE),
           Case("<default>", << >>, FALSE) >>),
        Set("o12", "Bdone", Lit("1")) >>),
    boomhelper |-> Sub("scoped", << Switch("u1", "B", << Case("helper", << Set("u2", "Q", IfE("u2e", InAcl("Nope"), Lit("a"), Lit("b"))) >>, FALSE) >>) >>),
    vcl_deliver |-> Sub("scoped", <<
        Log("d2", Cat(Lit("deliver "), IfE("d1e", FnC("bump"), Lit("t"), Lit("f")))),
        Ret("d3", "DELIVER") >>)
  ]

MainProg(m) == IF m = 1 THEN Main1 ELSE Main2

(* subroutines of the test file that tests use as mock targets (never instrumented) *)
TestSubs ==
  [ mock_helper |-> Sub("scoped", << Set("m1", "H", Lit("mock")) >>),
    mock_pick   |-> Sub("STRING", << RetV("m2", Lit("mocked")) >>) ]

Merge(f, g) == [x \in (DOMAIN f) \cup (DOMAIN g) |-> IF x \in DOMAIN f THEN f[x] ELSE g[x]]

(***************************************************************************)
(* MECHANISM: interpreter/coverage.go.  instrumentSubroutine puts a        *)
(* subroutine marker first; instrumentStatements puts, before every        *)
(* statement, what instrumentStatement returns for it; if / switch are     *)
(* rewritten in place.                                                     *)
(***************************************************************************)
RECURSIVE InstrSeq(_), InstrIf(_), NestElifs(_, _, _, _)

\* instrumentExpression: an if-expression becomes a separate if statement that evaluates the
\* condition once more, ahead of the statement (instrumentIfExpression)
RECURSIVE InstrExpr(_)
InstrExpr(e) ==
  CASE e.k = "ife" -> << If(e.id, e.c, << Mark("branch", e.id \o "_true") >>, << >>, TRUE,
                            << Mark("branch", e.id \o "_false") >>) >>
    [] e.k = "cat" -> InstrExpr(e.l) \o InstrExpr(e.r)
    [] OTHER       -> << >>

\* instrumentStatement: << markers to put in front >>, and the statement itself after in-place rewriting
Before(s) ==
  CASE s.k \in {"set", "log"}  -> << Mark("statement", s.id) >> \o InstrExpr(s.e)
    [] s.k = "retv"            -> << Mark("statement", s.id) >> \o InstrExpr(s.e)
    [] OTHER                   -> << Mark("statement", s.id) >>

Rewritten(s) ==
  CASE s.k = "if"     -> InstrIf(s)
    [] s.k = "switch" -> [s EXCEPT !.cases =
                            [j \in 1..Len(s.cases) |->
                               [s.cases[j] EXCEPT !.body = << Mark("branch", s.id \o "_" \o ToString(j)),
                                                              Mark("branch", s.id \o "_case" \o ToString(j)) >>
                                                            \o InstrSeq(@)
                                                            \* the break; / fallthrough; that ends the case is a statement too
                                                            \o << Mark("statement", s.id \o "_end" \o ToString(j)) >>]]]
    [] OTHER          -> s

InstrSeq(ss) == IF ss = << >> THEN << >> ELSE Before(Head(ss)) \o << Rewritten(Head(ss)) >> \o InstrSeq(Tail(ss))

\* the else-if chain becomes nested else { marker; if ... }; the root else goes to the innermost if
NestElifs(id, elifs, j, tail) ==
  IF j > Len(elifs) THEN tail
  ELSE [hasElse |-> TRUE,
        el |-> << Mark("branch", id \o "_" \o ToString(j + 1)),
                  LET inner == NestElifs(id, elifs, j + 1, tail) IN
                  If(id \o "_elif" \o ToString(j), elifs[j].c,
                     << Mark("branch", id \o "_elif" \o ToString(j) \o "_1") >> \o InstrSeq(elifs[j].body),
                     << >>, inner.hasElse, inner.el) >>]

InstrIf(s) ==
  LET n    == Len(s.elifs)
      tail == IF s.hasElse
              THEN [hasElse |-> TRUE, el |-> << Mark("branch", s.id \o "_" \o ToString(n + 2)) >> \o InstrSeq(s.el)]
              ELSE [hasElse |-> FALSE, el |-> << >>]
      nest == NestElifs(s.id, s.elifs, 1, tail)
  IN If(s.id, s.c, << Mark("branch", s.id \o "_1") >> \o InstrSeq(s.th), << >>, nest.hasElse, nest.el)

Instrument(P) == [n \in DOMAIN P |-> [P[n] EXCEPT !.body = << Mark("subroutine", n) >> \o InstrSeq(@)]]

\* every marker createMarker registers (Coverage.SetupSubroutine / SetupStatement / SetupBranch), as "kind:id"
RECURSIVE MarkersOf(_)
MarkersOfStmt(s) ==
  CASE s.k = "mark"   -> {s.kind \o ":" \o s.id}
    [] s.k = "if"     -> MarkersOf(s.th) \cup MarkersOf(s.el)
                         \cup UNION {MarkersOf(s.elifs[j].body) : j \in 1..Len(s.elifs)}
    [] s.k = "switch" -> UNION {MarkersOf(s.cases[j].body) : j \in 1..Len(s.cases)}
    [] OTHER          -> {}
MarkersOf(ss) == IF ss = << >> THEN {} ELSE MarkersOfStmt(Head(ss)) \cup MarkersOf(Tail(ss))
\* per main VCL variant and marker kind, evaluated once (constant-level definitions are cached by TLC)
MarkKinds == {"subroutine", "statement", "branch"}
MarkerSets ==
  [m \in {1, 2} |->
     LET I == Instrument(MainProg(m))
         all == UNION {MarkersOf(I[n].body) : n \in DOMAIN I}
         RECURSIVE Of(_, _)
         OfStmt(s, kind) == CASE s.k = "mark"   -> IF s.kind = kind THEN {s.kind \o ":" \o s.id} ELSE {}
                              [] s.k = "if"     -> Of(s.th, kind) \cup Of(s.el, kind)
                                                   \cup UNION {Of(s.elifs[j].body, kind) : j \in 1..Len(s.elifs)}
                              [] s.k = "switch" -> UNION {Of(s.cases[j].body, kind) : j \in 1..Len(s.cases)}
                              [] OTHER          -> {}
         Of(ss, kind) == IF ss = << >> THEN {} ELSE OfStmt(Head(ss), kind) \cup Of(Tail(ss), kind)
     IN [all |-> all, byKind |-> [k \in MarkKinds |-> UNION {Of(I[n].body, k) : n \in DOMAIN I}]]]
AllMarkers(m) == MarkerSets[m].all
KindCount(M, m, kind) == Cardinality(M \cap MarkerSets[m].byKind[kind])

(***************************************************************************)
(* The interpreter, as far as the pool exercises it.  env is the state of  *)
(* one Interpreter + its context.Context.                                  *)
(***************************************************************************)
Hdrs     == {"A", "S", "Z", "R", "T", "E", "V", "N", "H", "L", "C", "Zone", "Zs", "Zalt", "B", "Q", "Bdone", "Bare", "Nope"}
SubNames == {"bump", "pick", "helper", "zone", "bare", "boom", "boomhelper", "vcl_recv", "vcl_deliver", "mock_helper", "mock_pick"}
\* acl internal { "192.0.2.0"/24; } - the addresses the pool uses
AclAnswer(v) == IF v = "192.0.2.5" THEN "in" ELSE IF v = "10.0.0.1" THEN "out" ELSE "error"

\* table fixture STRING { "k": "fx", "mode": "blue" } in the test file
Fixture0 == [k |-> "fx", mode |-> "blue"]

FreshEnv ==
  [ hdr   |-> [h \in Hdrs |-> NOTSET],           \* req.http.*
    tbl   |-> [k |-> "v0", mode |-> NOTSET],     \* table tbl of the main VCL (parsed anew by ProcessInit), per key
    fixture |-> Fixture0,                        \* table `fixture` of the TEST FILE: parsed once, its property nodes are
                                                 \* shared by every test of the file (tester.factoryDefinitions)
    ovr   |-> "DEFAULT",                         \* ctx.OverrideVariables["client.geo.country_code"]
    host  |-> "localhost",                       \* req.http.Host / ctx.OriginalHost
    mocks |-> [helper |-> "", pick |-> ""],      \* ctx.MockedSubroutines / MockedFunctioncalSubroutines
    state |-> "NONE",                            \* Interpreter.TestingState
    objstatus |-> 0,                             \* ctx.ObjectStatus after an error statement
    calls |-> [s \in SubNames |-> 0],            \* ctx.SubroutineCalls
    logs  |-> << >>,                             \* the Debugger's stack
    cov   |-> {},                                \* marker ids hit
    dbl   |-> FALSE ]                            \* an effectful condition was evaluated by an instrumentation-made if

RECURSIVE EvalE(_, _, _), EvalC(_, _, _), ExecSeq(_, _, _, _), ExecIf(_, _, _, _), ExecCases(_, _, _, _), RunSub(_, _, _)

R(env, ctl, val) == [env |-> env, ctl |-> ctl, val |-> val]

\* run subroutine `name` (or its mock); the deferred SubroutineCalls[sub.Name.Value]++ counts the executed one
RunSub(P, name, env) ==
  LET tgt == IF name \in DOMAIN env.mocks /\ env.mocks[name] # "" THEN env.mocks[name] ELSE name
      r   == ExecSeq(P, P[tgt].body, 1, env)
  IN  [r EXCEPT !.env.calls[tgt] = @ + 1]

EvalC(P, c, env) ==       \* -> [env, b, ok]
  CASE c.k = "eq"  -> [env |-> env, b |-> (env.hdr[c.h] = c.v), ok |-> TRUE]
    [] c.k = "isset" -> [env |-> env, b |-> (env.hdr[c.h] # NOTSET), ok |-> TRUE]
    [] c.k = "acl"   -> [env |-> env, b |-> (AclAnswer(env.hdr[c.h]) = "in"), ok |-> (AclAnswer(env.hdr[c.h]) # "error")]
    [] c.k = "fnc" -> LET r == RunSub(P, c.f, env) IN
                      [env |-> r.env, b |-> (r.val = "true"), ok |-> (r.ctl = "return")]

EvalE(P, e, env) ==       \* -> [env, v, ok]
  CASE e.k = "lit" -> [env |-> env, v |-> e.v, ok |-> TRUE]
    [] e.k = "hdr" -> [env |-> env, v |-> env.hdr[e.h], ok |-> TRUE]
    [] e.k = "cat" -> LET l == EvalE(P, e.l, env)
                          r == EvalE(P, e.r, l.env) IN
                      [env |-> r.env, v |-> Str(l.v) \o Str(r.v), ok |-> l.ok /\ r.ok]
    [] e.k = "ife" -> LET c == EvalC(P, e.c, env) IN
                      IF ~c.ok THEN [env |-> c.env, v |-> "", ok |-> FALSE]
                      ELSE IF c.b THEN EvalE(P, e.a, c.env) ELSE EvalE(P, e.b, c.env)
    [] e.k = "fn"  -> LET r == RunSub(P, e.f, env) IN
                      [env |-> r.env, v |-> r.val, ok |-> (r.ctl = "return")]

\* ctl: "next" | "return" (val = state or value) | "error" | "restart" | "rterr"
ExecSeq(P, ss, i, env) ==
  IF i > Len(ss) THEN R(env, "next", "")
  ELSE LET s == ss[i] IN
    CASE s.k = "mark" -> ExecSeq(P, ss, i + 1, [env EXCEPT !.cov = @ \cup {s.kind \o ":" \o s.id}])
      [] s.k = "set"  -> LET r == EvalE(P, s.e, env) IN
                         IF ~r.ok THEN R(r.env, "rterr", "")
                         ELSE ExecSeq(P, ss, i + 1, [r.env EXCEPT !.hdr[s.h] = r.v])
      [] s.k = "log"  -> LET r == EvalE(P, s.e, env) IN
                         IF ~r.ok THEN R(r.env, "rterr", "")
                         ELSE ExecSeq(P, ss, i + 1, [r.env EXCEPT !.logs = Append(@, Str(r.v))])
      [] s.k = "if"   -> LET r == ExecIf(P, s, 0, env) IN
                         IF r.ctl = "next" THEN ExecSeq(P, ss, i + 1, r.env) ELSE r
      [] s.k = "switch" ->
                         LET ctrl == IF env.hdr[s.h] = NOTSET THEN "" ELSE env.hdr[s.h]
                             hits == {j \in 1..Len(s.cases) : s.cases[j].m = ctrl}
                             dflt == {j \in 1..Len(s.cases) : s.cases[j].m = "<default>"}
                             start == IF hits # {} THEN CHOOSE j \in hits : \A j2 \in hits : j <= j2
                                      ELSE IF dflt # {} THEN CHOOSE j \in dflt : TRUE ELSE 0
                             r == IF start = 0 THEN R(env, "next", "") ELSE ExecCases(P, s.cases, start, env) IN
                         IF r.ctl = "next" THEN ExecSeq(P, ss, i + 1, r.env) ELSE r
      [] s.k = "ret"  -> R(env, "return", s.st)
      [] s.k = "retv" -> LET r == EvalE(P, s.e, env) IN
                         IF ~r.ok THEN R(r.env, "rterr", "") ELSE R(r.env, "return", r.v)
      \* ProcessCallStatement: a callee left through a bare return (BARE_RETURN -> NONE) lets the caller go on
      [] s.k = "call" -> LET r == RunSub(P, s.s, env) IN
                         IF r.ctl = "next" \/ (r.ctl = "return" /\ r.val = "BARE") THEN ExecSeq(P, ss, i + 1, r.env) ELSE r
      [] s.k = "error"   -> R([env EXCEPT !.objstatus = s.code], "error", "")
      [] s.k = "restart" -> R(env, "restart", "")
      [] s.k = "retbare" -> R(env, "return", "BARE")

\* the if made by instrumentIfExpression is recognisable: both arms hold exactly one branch marker
IsPreEval(s) == s.th # << >> /\ s.th[1].k = "mark" /\ Len(s.th) = 1 /\ s.elifs = << >> /\ s.hasElse
                /\ Len(s.el) = 1 /\ s.el[1].k = "mark"

ExecIf(P, s, j, env) ==
  IF j = 0 THEN
       LET c  == EvalC(P, s.c, env)
           e1 == IF IsPreEval(s) /\ s.c.k = "fnc" THEN [c.env EXCEPT !.dbl = TRUE] ELSE c.env IN
       IF ~c.ok THEN R(e1, "rterr", "")
       ELSE IF c.b THEN ExecSeq(P, s.th, 1, e1) ELSE ExecIf(P, s, 1, e1)
  ELSE IF j <= Len(s.elifs) THEN
       LET c == EvalC(P, s.elifs[j].c, env) IN
       IF ~c.ok THEN R(c.env, "rterr", "")
       ELSE IF c.b THEN ExecSeq(P, s.elifs[j].body, 1, c.env) ELSE ExecIf(P, s, j + 1, c.env)
  ELSE IF s.hasElse THEN ExecSeq(P, s.el, 1, env)
  ELSE R(env, "next", "")

\* ProcessCaseStatement: run the body; fall through to the next case when the flag is set and nothing returned
ExecCases(P, cases, j, env) ==
  LET r == ExecSeq(P, cases[j].body, 1, env) IN
  IF r.ctl = "next" /\ cases[j].ft /\ j < Len(cases) THEN ExecCases(P, cases, j + 1, r.env) ELSE r

(***************************************************************************)
(* Test subroutines.  A test is [scopes, skip, body]; body is a sequence   *)
(* of operations <<op, args...>>.  What each does to the interpreter and   *)
(* when an assertion holds is below - the truth of state-dependent         *)
(* assertions is computed, the truth of <<"const", family, holds>> is by   *)
(* construction (the harness has one holding and one failing instance of   *)
(* every assertion family that takes plain arguments).                     *)
(***************************************************************************)
Families == {"assert", "true", "false", "equal", "not_equal", "strict_equal", "not_strict_equal", "equal_fold",
             "match", "not_match", "contains", "not_contains", "starts_with", "ends_with", "is_json", "is_notset"}

\* which scopes a predefined variable can be read in (the two the pool uses)
ReadableIn(var) == IF var = "resp.status" THEN {"DELIVER", "LOG"}
                   ELSE IF var = "req.url" THEN {"RECV", "DELIVER", "LOG", "FETCH"}
                   ELSE {}

T(scopes, skip, body) == [scopes |-> scopes, skip |-> skip, body |-> body]
RECV == << "RECV" >>

CoreTests ==
  [ recv_a1      |-> T(RECV, FALSE, << <<"sethdr", "A", "1">>, <<"call", "vcl_recv">>, <<"a_hdr_eq", "R", "a">>,
                                       <<"a_hdr_eq", "E", "t">>, <<"a_hdr_eq", "V", "one">>, <<"a_state", "LOOKUP">> >>),
    recv_a2x     |-> T(RECV, FALSE, << <<"sethdr", "A", "2">>, <<"sethdr", "S", "x">>, <<"call", "vcl_recv">>,
                                       <<"a_hdr_eq", "R", "b">>, <<"a_hdr_eq", "T", "xy">>, <<"a_hdr_eq", "V", "two">> >>),
    recv_a3y     |-> T(RECV, FALSE, << <<"sethdr", "A", "3">>, <<"sethdr", "S", "y">>, <<"sethdr", "T", "0">>,
                                       <<"call", "vcl_recv">>, <<"a_hdr_eq", "R", "c">>, <<"a_hdr_eq", "T", "0y">> >>),
    recv_dflt    |-> T(RECV, FALSE, << <<"call", "vcl_recv">>, <<"a_hdr_eq", "R", "d">>, <<"a_hdr_eq", "T", "d">>,
                                       <<"a_hdr_eq", "E", "f">>, <<"a_hdr_eq", "V", "other">>, <<"a_hdr_eq", "H", "orig">>,
                                       <<"a_called", "helper", 1>>, <<"a_not_called", "mock_helper">> >>),
    recv_wrong   |-> T(RECV, FALSE, << <<"sethdr", "A", "2">>, <<"call", "vcl_recv">>, <<"a_hdr_eq", "R", "a">> >>),
    recv_err     |-> T(RECV, FALSE, << <<"sethdr", "Z", "err">>, <<"call", "vcl_recv">>, <<"a_error", 601>>,
                                       <<"a_not_restart">>, <<"a_not_state", "LOOKUP">> >>),
    recv_restart |-> T(RECV, FALSE, << <<"sethdr", "Z", "restart">>, <<"call", "vcl_recv">>, <<"a_restart">>, <<"a_not_error">> >>),
    recv_pass    |-> T(RECV, FALSE, << <<"sethdr", "Z", "pass">>, <<"call", "vcl_recv">>, <<"a_state", "PASS">>,
                                       <<"a_called", "vcl_recv", 1>> >>),
    recv_twice   |-> T(RECV, FALSE, << <<"call", "vcl_recv">>, <<"sethdr", "A", "1">>, <<"call", "vcl_recv">>,
                                       <<"a_called", "vcl_recv", 2>>, <<"a_hdr_eq", "R", "a">> >>),
    fail_assert  |-> T(RECV, FALSE, << <<"a_hdr_eq", "R", "zzz">> >>),
    fail_late    |-> T(RECV, FALSE, << <<"const", "true", TRUE>>, <<"log", "before">>, <<"a_state", "LOOKUP">>, <<"log", "after">> >>),
    runtime_err  |-> T(RECV, FALSE, << <<"const", "equal", TRUE>>, <<"rterr">>, <<"const", "true", FALSE>> >>),
    bad_call     |-> T(RECV, FALSE, << <<"call", "no_such_sub">> >>),
    skipped      |-> T(RECV, TRUE,  << <<"const", "true", FALSE>> >>),
    skipped2     |-> T(<< "RECV", "DELIVER" >>, TRUE, << <<"rterr">> >>),
    mut_table    |-> T(RECV, FALSE, << <<"tblset", "mutated">>, <<"a_tbl_eq", "mutated">> >>),
    read_table   |-> T(RECV, FALSE, << <<"a_tbl_eq", "v0">> >>),
    set_header   |-> T(RECV, FALSE, << <<"sethdr", "L", "1">>, <<"a_hdr_eq", "L", "1">> >>),
    read_header  |-> T(RECV, FALSE, << <<"a_hdr_notset", "L">> >>),
    inject_var   |-> T(RECV, FALSE, << <<"inject", "JP">>, <<"a_var_eq", "JP">> >>),
    read_var     |-> T(RECV, FALSE, << <<"a_var_ne", "JP">> >>),
    mock_sub     |-> T(RECV, FALSE, << <<"mock", "helper", "mock_helper">>, <<"call", "vcl_recv">>, <<"a_hdr_eq", "H", "mock">>,
                                       <<"a_called", "mock_helper", 1>>, <<"a_not_called", "helper">> >>),
    mock_fn      |-> T(RECV, FALSE, << <<"mock", "pick", "mock_pick">>, <<"call", "vcl_recv">>, <<"a_hdr_eq", "V", "mocked">> >>),
    unmocked     |-> T(RECV, FALSE, << <<"sethdr", "A", "2">>, <<"call", "vcl_recv">>, <<"a_hdr_eq", "H", "orig">>,
                                       <<"a_hdr_eq", "V", "two">> >>),
    set_host     |-> T(RECV, FALSE, << <<"host", "example.org">>, <<"a_host_eq", "example.org">> >>),
    read_host    |-> T(RECV, FALSE, << <<"a_host_eq", "localhost">> >>),
    logs         |-> T(RECV, FALSE, << <<"log", "hello">>, <<"const", "true", TRUE>>, <<"log", "bye">> >>),
    logs_main    |-> T(RECV, FALSE, << <<"log", "t1">>, <<"sethdr", "A", "3">>, <<"call", "vcl_recv">>, <<"log", "t2">> >>),
    two_scopes   |-> T(<< "RECV", "DELIVER" >>, FALSE, << <<"const", "true", TRUE>> >>),
    two_leak     |-> T(<< "RECV", "DELIVER" >>, FALSE, << <<"a_hdr_notset", "L">>, <<"sethdr", "L", "1">>, <<"log", "set L">> >>),
    two_var      |-> T(<< "RECV", "DELIVER" >>, FALSE, << <<"readvar", "req.url">>, <<"readvar", "resp.status">>, <<"const", "true", TRUE>> >>),
    deliver_fx   |-> T(<< "DELIVER" >>, FALSE, << <<"call", "vcl_deliver">>, <<"a_hdr_eq", "N", "(null)i">>, <<"a_state", "DELIVER">> >>),
    deliver_log  |-> T(<< "DELIVER" >>, FALSE, << <<"call", "vcl_deliver">>, <<"a_called", "bump", 1>> >>),
    zone_unset   |-> T(RECV, FALSE, << <<"sethdr", "A", "1">>, <<"call", "zone">>, <<"a_hdr_eq", "Zalt", "a1">>,
                                       <<"a_called", "zone", 1>>, <<"a_not_called", "bump">> >>),
    zone_in      |-> T(RECV, FALSE, << <<"sethdr", "C", "192.0.2.5">>, <<"call", "zone">>, <<"a_hdr_eq", "Zalt", "i">>,
                                       <<"a_not_state", "LOOKUP">>, <<"a_not_error">> >>),
    zone_out     |-> T(RECV, FALSE, << <<"sethdr", "C", "10.0.0.1">>, <<"sethdr", "A", "1">>, <<"call", "zone">>,
                                       <<"a_hdr_eq", "Zalt", "a1">> >>),
    zone_bad     |-> T(RECV, FALSE, << <<"sethdr", "C", "abc">>, <<"call", "zone">>, <<"const", "true", TRUE>> >>),
    zone_noguard |-> T(RECV, FALSE, << <<"call", "zone">>, <<"log", "unreachable">> >>),
    merge_set    |-> T(RECV, FALSE, << <<"tblmerge">>, <<"a_tblk_eq", "mode", "blue">>, <<"a_tbl_eq", "fx">>,
                                       <<"tblsetk", "mode", "green">>, <<"a_tblk_eq", "mode", "green">>, <<"tblset", "own">> >>),
    merge_read   |-> T(RECV, FALSE, << <<"a_tblk_notset", "mode">>, <<"tblmerge">>, <<"a_tblk_eq", "mode", "blue">>,
                                       <<"a_tbl_eq", "fx">> >>),
    merge_twice  |-> T(<< "RECV", "DELIVER" >>, FALSE, << <<"tblmerge">>, <<"tblsetk", "k", "own">>, <<"a_tbl_eq", "own">>,
                                       <<"tblmerge">>, <<"a_tbl_eq", "fx">>, <<"tblsetk", "mode", "red">> >>),
    mock_restore |-> T(RECV, FALSE, << <<"mock", "helper", "mock_helper">>, <<"restore_mock", "helper">>, <<"call", "vcl_recv">>,
                                       <<"a_hdr_eq", "H", "orig">>, <<"mock", "pick", "mock_pick">>, <<"mock", "helper", "mock_helper">>,
                                       <<"restore_all">>, <<"call", "vcl_recv">>, <<"a_hdr_eq", "V", "other">>,
                                       <<"a_not_called", "mock_helper">> >>),
    inject_twice |-> T(RECV, FALSE, << <<"inject", "JP">>, <<"inject", "US">>, <<"a_var_eq", "US">> >>),
    host_twice   |-> T(RECV, FALSE, << <<"host", "a.example.org">>, <<"host", "b.example.org">>, <<"a_host_eq", "b.example.org">> >>),
    \* the state the assertions see is the one of the LAST testing.call_subroutine
    seq_lookup_bare  |-> T(RECV, FALSE, << <<"call", "vcl_recv">>, <<"a_state", "LOOKUP">>, <<"call", "bare">>, <<"a_not_state", "LOOKUP">>,
                                           <<"a_hdr_eq", "Bare", "1">>, <<"a_not_error">>, <<"a_not_restart">> >>),
    seq_err_bare     |-> T(RECV, FALSE, << <<"sethdr", "Z", "err">>, <<"call", "vcl_recv">>, <<"a_error", 601>>, <<"call", "bare">>,
                                           <<"a_not_error">>, <<"a_not_state", "ERROR">> >>),
    seq_restart_bare |-> T(RECV, FALSE, << <<"sethdr", "Z", "restart">>, <<"call", "vcl_recv">>, <<"a_restart">>, <<"call", "bare">>,
                                           <<"a_not_restart">> >>),
    seq_lookup_fall  |-> T(RECV, FALSE, << <<"call", "vcl_recv">>, <<"call", "helper">>, <<"a_not_state", "LOOKUP">>,
                                           <<"sethdr", "Z", "late">>, <<"call", "bare">>, <<"a_hdr_eq", "Bare", "2">>, <<"a_not_state", "LOOKUP">> >>),
    seq_three        |-> T(RECV, FALSE, << <<"sethdr", "Z", "pass">>, <<"call", "vcl_recv">>, <<"a_state", "PASS">>, <<"call", "bare">>,
                                           <<"a_not_state", "PASS">>, <<"sethdr", "Z", "err">>, <<"call", "vcl_recv">>, <<"a_error", 601>>,
                                           <<"a_not_state", "PASS">> >>),
    seq_bare_wrong   |-> T(RECV, FALSE, << <<"call", "vcl_recv">>, <<"call", "bare">>, <<"a_state", "LOOKUP">> >>),
    seq_two_scopes   |-> T(<< "RECV", "DELIVER" >>, FALSE, << <<"call", "bare">>, <<"a_not_state", "LOOKUP">>, <<"a_not_error">>,
                                           <<"call", "vcl_recv">>, <<"a_state", "LOOKUP">> >>),
    seq_two_restart  |-> T(<< "RECV", "DELIVER" >>, FALSE, << <<"call", "helper">>, <<"a_not_error">>, <<"a_not_restart">>,
                                           <<"sethdr", "Z", "restart">>, <<"call", "vcl_recv">> >>),
    \* a runtime error at every position of a main-VCL subroutine reached through testing.call_subroutine
    boom_then    |-> T(RECV, FALSE, << <<"sethdr", "B", "then">>, <<"call", "boom">>, <<"log", "unreachable">> >>),
    boom_elif    |-> T(RECV, FALSE, << <<"sethdr", "B", "elif">>, <<"call", "boom">>, <<"log", "unreachable">> >>),
    boom_nested  |-> T(RECV, FALSE, << <<"sethdr", "B", "nested">>, <<"call", "boom">>, <<"log", "unreachable">> >>),
    boom_case    |-> T(RECV, FALSE, << <<"sethdr", "B", "case">>, <<"call", "boom">>, <<"log", "unreachable">> >>),
    boom_helper  |-> T(RECV, FALSE, << <<"sethdr", "B", "helper">>, <<"call", "boom">>, <<"log", "unreachable">> >>),
    boom_none    |-> T(RECV, FALSE, << <<"sethdr", "B", "else">>, <<"call", "boom">>, <<"a_hdr_eq", "Bdone", "1">>, <<"a_hdr_notset", "Q">> >>),
    empty        |-> T(RECV, FALSE, << >>)
  ]

FamName(f, holds) == "fam_" \o f \o (IF holds THEN "_hold" ELSE "_fail")
FamTests == [n \in {FamName(f, h) : f \in Families, h \in BOOLEAN} |->
               LET fh == CHOOSE fh \in Families \X BOOLEAN : FamName(fh[1], fh[2]) = n IN
               T(RECV, FALSE, << <<"const", fh[1], fh[2]>>, <<"log", "after " \o fh[1]>> >>)]

\* the mock targets are top-level subroutines of the test file, so the tester runs them as tests as well
\* (tester.run has one arm for every *ast.SubroutineDeclaration): every file starts with them
HelperTests == [ mock_helper |-> T(RECV, FALSE, << <<"ast", "mock_helper">> >>),
                 mock_pick   |-> T(RECV, FALSE, << <<"ast", "mock_pick">> >>) ]
Prefix == << "mock_helper", "mock_pick" >>

\* every failing construct at every position of the test subroutine's body: the verdict is "failed" wherever it stands
Positions == {"then", "elif", "else", "nested", "case"}
FailOps ==
  [ rterr   |-> <<"rterr">>,
    badcall |-> <<"call", "no_such_sub">>,
    state   |-> <<"a_state", "LOOKUP">>,
    hdr     |-> <<"a_hdr_eq", "R", "zzz">>,
    called  |-> <<"a_called", "helper", 1>> ]
PosFailOp(c) == IF c \in DOMAIN FailOps THEN FailOps[c] ELSE <<"const", c, FALSE>>
PosConstructs == (DOMAIN FailOps) \cup Families
PosName(c, p) == "pos_" \o c \o "_" \o p
PosTests ==
  [n \in {PosName(c, p) : c \in PosConstructs, p \in Positions} \cup {PosName("hold", p) : p \in Positions} |->
     IF \E p \in Positions : n = PosName("hold", p)
     THEN LET p == CHOOSE p \in Positions : n = PosName("hold", p) IN
          T(RECV, FALSE, << <<"at", p, <<"const", "equal", TRUE>> >>, <<"at", p, <<"log", "inside">> >>, <<"log", "after">> >>)
     ELSE LET cp == CHOOSE cp \in PosConstructs \X Positions : n = PosName(cp[1], cp[2]) IN
          T(RECV, FALSE, << <<"log", "before">>, <<"at", cp[2], PosFailOp(cp[1])>>, <<"log", "unreachable">> >>)]

Tests == Merge(Merge(Merge(CoreTests, FamTests), PosTests), HelperTests)
AllTests  == (DOMAIN CoreTests) \cup (DOMAIN FamTests) \cup (DOMAIN PosTests)
FamNames  == DOMAIN FamTests
PosNames  == DOMAIN PosTests
CoreNames == DOMAIN CoreTests
BothCov   == BOOLEAN
NoCov     == {FALSE}
MainOne   == {1}
MainBoth  == {1, 2}
IsFam(n) == n \in (DOMAIN FamTests) \cup (DOMAIN PosTests)

\* result of a body: [env, verdict "pass"|"fail", kind ""|"assert"|"error", np (assertions passed), nf (assertions failed)]
RECURSIVE RunOps(_, _, _, _, _, _)
RunOps(P, ops0, i, env, scope, np) ==
  \* <<"at", position, op>>: the operation sits inside an if-consequence / else-if / else / two ifs / a switch case
  \* of the test subroutine.  Where a statement stands does not change what it does.
  LET ops == [j \in 1..Len(ops0) |-> IF ops0[j][1] = "at" THEN ops0[j][3] ELSE ops0[j]] IN
  IF i > Len(ops) THEN [env |-> env, verdict |-> "pass", kind |-> "", np |-> np, nf |-> 0]
  ELSE
    LET o == ops[i]
        Go(e)     == RunOps(P, ops, i + 1, e, scope, np)
        Chk(b) == IF b THEN RunOps(P, ops, i + 1, env, scope, np + 1)
                     ELSE [env |-> env, verdict |-> "fail", kind |-> "assert", np |-> np, nf |-> 1]
        Error(e)  == [env |-> e, verdict |-> "fail", kind |-> "error", np |-> np, nf |-> 0]
    IN
    CASE o[1] = "sethdr" -> Go([env EXCEPT !.hdr[o[2]] = o[3]])
      [] o[1] = "tblset" -> Go([env EXCEPT !.tbl.k = o[2]])
      \* testing.table_set(tbl, key, value): Testing_table_MergeProperty puts a NEW property node in the place of the
      \* entry - the node that was there (possibly one of the fixture's) is not written to
      [] o[1] = "tblsetk" -> Go([env EXCEPT !.tbl[o[2]] = o[3]])
      \* testing.table_merge(tbl, fixture): the fixture's property nodes themselves become entries of tbl
      [] o[1] = "tblmerge" -> Go([env EXCEPT !.tbl = [key \in DOMAIN env.tbl |-> env.fixture[key]]])
      [] o[1] = "restore_mock" -> Go([env EXCEPT !.mocks[o[2]] = ""])
      [] o[1] = "restore_all"  -> Go([env EXCEPT !.mocks = [n \in DOMAIN env.mocks |-> ""]])
      [] o[1] = "inject" -> Go([env EXCEPT !.ovr = o[2]])
      [] o[1] = "mock"   -> Go([env EXCEPT !.mocks[o[2]] = o[3]])
      [] o[1] = "host"   -> Go([env EXCEPT !.host = o[2]])
      [] o[1] = "log"    -> Go([env EXCEPT !.logs = Append(@, o[2])])
      [] o[1] = "rterr"  -> Error(env)
      [] o[1] = "ast"    -> LET r == ExecSeq(P, P[o[2]].body, 1, env) IN      \* the body is one of TestSubs
                            IF r.ctl = "rterr" THEN Error(r.env) ELSE Go(r.env)
      [] o[1] = "readvar" -> IF scope \in ReadableIn(o[2]) THEN Go(env) ELSE Error(env)
      [] o[1] = "call"   ->
            IF o[2] \notin DOMAIN P THEN Error(env)          \* testing.call_subroutine: not defined
            ELSE LET r == RunSub(P, o[2], env) IN
                 IF r.ctl = "rterr" THEN Error(r.env)
                 ELSE Go([r.env EXCEPT !.state = CASE r.ctl = "next"    -> "NONE"
                                                   [] r.ctl = "return"  -> r.val
                                                   [] r.ctl = "error"   -> "ERROR"
                                                   [] r.ctl = "restart" -> "RESTART"])
      [] o[1] = "a_hdr_eq"     -> Chk(env.hdr[o[2]] = o[3])
      [] o[1] = "a_hdr_notset" -> Chk(env.hdr[o[2]] = NOTSET)
      [] o[1] = "a_tbl_eq"     -> Chk(env.tbl.k = o[2])
      [] o[1] = "a_tblk_eq"    -> Chk(env.tbl[o[2]] = o[3])
      [] o[1] = "a_tblk_notset" -> Chk(env.tbl[o[2]] = NOTSET)
      [] o[1] = "a_var_eq"     -> Chk(env.ovr = o[2])
      [] o[1] = "a_var_ne"     -> Chk(env.ovr # o[2])
      [] o[1] = "a_host_eq"    -> Chk(env.host = o[2])
      [] o[1] = "a_state"      -> Chk(env.state = o[2])
      [] o[1] = "a_not_state"  -> Chk(env.state # o[2])
      [] o[1] = "a_called"     -> Chk(env.calls[o[2]] = o[3])
      [] o[1] = "a_not_called" -> Chk(env.calls[o[2]] = 0)
      [] o[1] = "a_restart"     -> Chk(env.state = "RESTART")
      [] o[1] = "a_not_restart" -> Chk(env.state # "RESTART")
      [] o[1] = "a_error"       -> Chk(env.state = "ERROR" /\ env.objstatus = o[2])
      [] o[1] = "a_not_error"   -> Chk(env.state # "ERROR")
      [] o[1] = "const"         -> Chk(o[3])

(***************************************************************************)
(* REQUIREMENT.  Case k of test t, run alone on a fresh interpreter        *)
(* against the main VCL as written.                                        *)
(***************************************************************************)
Plain(m) == Merge(MainProg(m), TestSubs)

RECURSIVE AloneEnv(_, _, _)
\* interpreter state after the first k cases of t run alone (the scopes of one test share the interpreter)
AloneEnv(m, t, k) ==
  IF k = 0 THEN FreshEnv
  ELSE RunOps(Plain(m), Tests[t].body, 1, [AloneEnv(m, t, k - 1) EXCEPT !.logs = << >>], Tests[t].scopes[k], 0).env

Req(m, t, k) ==
  IF Tests[t].skip THEN [verdict |-> "skip", logs |-> << >>]
  ELSE LET r == RunOps(Plain(m), Tests[t].body, 1, [AloneEnv(m, t, k - 1) EXCEPT !.logs = << >>], Tests[t].scopes[k], 0) IN
       [verdict |-> r.verdict, logs |-> r.env.logs]

(***************************************************************************)
(* MECHANISM: tester.run                                                   *)
(***************************************************************************)
VARIABLES
  main,      \* main VCL variant
  cov,       \* config.Coverage
  order,     \* names of the test subroutines met so far, in file order
  pc,        \* "idle" (between statements of the test file) | "running" (inside the loop over metadata.Scopes)
  si,        \* index of the next scope of the current test
  cur,       \* the interpreter made by setupInterpreter for the current test
  curId,     \* how many interpreters were made
  boundTo,   \* which interpreter the process-global injected functions are closures over (function.Inject)
  prev,      \* the previous interpreter (what a stale closure would read)
  counter,   \* tester/shared/counter.go
  covhit,    \* tester/shared/coverage.go: the markers hit so far (one Coverage object for the whole run)
  cases      \* the TestCase list, each with the requirement's answer next to the mechanism's

vars == << main, cov, order, pc, si, cur, curId, boundTo, prev, counter, covhit, cases >>

Programs == [m \in {1, 2} |-> [c \in BOOLEAN |-> IF c THEN Merge(Instrument(MainProg(m)), TestSubs) ELSE Plain(m)]]
Program == Programs[main][cov]

NFam(o) == Cardinality({i \in 1..Len(o) : IsFam(o[i])})

Init ==
  /\ main \in MainIds /\ cov \in Coverages
  /\ order = << >> /\ pc = "idle" /\ si = 1
  /\ cur = FreshEnv /\ prev = FreshEnv /\ curId = 0 /\ boundTo = 0
  /\ counter = [asserts |-> 0, passes |-> 0, fails |-> 0, skips |-> 0]
  /\ covhit = {}
  /\ cases = << >>

\* case *ast.SubroutineDeclaration: i := t.setupInterpreter(defs); i.TestProcessInit(mockRequest)
Setup(t) ==
  /\ pc = "idle"
  /\ IF Len(order) < Len(Prefix) THEN t = Prefix[Len(order) + 1]
     ELSE /\ Len(order) < Len(Prefix) + MaxLen
          /\ t \in Pool /\ \A i \in 1..Len(order) : order[i] # t
          /\ NFam(Append(order, t)) <= MaxFam
  /\ order' = Append(order, t)
  \* a fresh interpreter - but the definitions of the test file (defs) are the same objects for every test
  /\ prev' = cur /\ cur' = [FreshEnv EXCEPT !.fixture = cur.fixture] /\ curId' = curId + 1
  /\ boundTo' = curId + 1               \* function.Inject(tf.TestingFunctions(i, ...)) overrides the global table
  /\ si' = 1 /\ pc' = "running"
  /\ UNCHANGED << main, cov, counter, covhit, cases >>

\* for _, s := range metadata.Scopes { ... }
RunScope ==
  /\ pc = "running"
  /\ LET t  == order[Len(order)]
         d  == Tests[t]
         sc == d.scopes[si]
         \* assertions and testing functions act on the interpreter their closure was made over
         e0 == IF boundTo = curId THEN cur ELSE prev
         r  == RunOps(Program, d.body, 1, [e0 EXCEPT !.logs = << >>], sc, 0)
         rq == Req(main, t, si)
     IN
     /\ IF d.skip
        THEN /\ cases' = Append(cases, [name |-> t, scope |-> sc, req |-> rq,
                                        mech |-> [verdict |-> "skip", kind |-> "", logs |-> << >>], dbl |-> FALSE])
             /\ counter' = [counter EXCEPT !.skips = @ + 1]
             /\ UNCHANGED << cur, covhit >>
        ELSE /\ cases' = Append(cases, [name |-> t, scope |-> sc, req |-> rq,
                                        mech |-> [verdict |-> r.verdict, kind |-> r.kind, logs |-> r.env.logs],
                                        dbl |-> r.env.dbl])
             \* c.Pass() per holding assertion, c.Fail() for the failing one, and t.counter.Fail() for the failed case
             /\ counter' = [counter EXCEPT
                              !.asserts = @ + r.np + r.nf + (IF r.verdict = "fail" THEN 1 ELSE 0),
                              !.passes  = @ + r.np,
                              !.fails   = @ + r.nf + (IF r.verdict = "fail" THEN 1 ELSE 0)]
             /\ cur' = r.env
             /\ covhit' = covhit \cup r.env.cov
     /\ IF si < Len(d.scopes) THEN si' = si + 1 /\ pc' = "running" ELSE si' = 1 /\ pc' = "idle"
  /\ UNCHANGED << main, cov, order, curId, boundTo, prev >>

Next == (\E t \in Pool \cup {Prefix[i] : i \in 1..Len(Prefix)} : Setup(t)) \/ RunScope
Spec == Init /\ [][Next]_vars

(***************************************************************************)
(* What `falco test` reports (cmd/falco/main.go runTest)                   *)
(***************************************************************************)
CountV(v) == Cardinality({i \in 1..Len(cases) : cases[i].mech.verdict = v})
Summary == [passed |-> CountV("pass"), failed |-> CountV("fail"), skipped |-> CountV("skip"), total |-> Len(cases)]
ExitMech == IF counter.fails > 0 THEN 1 ELSE 0
ExitReq  == IF \E i \in 1..Len(cases) : cases[i].req.verdict = "fail" THEN 1 ELSE 0

(***************************************************************************)
(* mechanism |= requirement                                                *)
(***************************************************************************)
\* the one deviation the code knowingly has: with coverage on, the condition of an if-expression is evaluated
\* twice; a case in which such a condition had a side effect is outside VerdictFaithful (known finding)
Deviates(c) == cov /\ c.dbl

VerdictFaithful == \A i \in 1..Len(cases) :
                      Deviates(cases[i]) \/ (cases[i].mech.verdict = cases[i].req.verdict /\ cases[i].mech.logs = cases[i].req.logs)
CountsAddUp     == Summary.passed + Summary.failed + Summary.skipped = Summary.total
ExitFaithful    == pc = "idle" => (ExitMech = 1 <=> \E i \in 1..Len(cases) : cases[i].mech.verdict = "fail")
BoundCurrent    == pc = "running" => boundTo = curId
\* nothing a test does writes to the shared definitions of the test file
FixtureIntact   == cur.fixture = Fixture0
\* without coverage nothing deviates at all
NoCovNoDeviation == ~cov => (covhit = {} /\ \A i \in 1..Len(cases) : ~cases[i].dbl)
\* only registered markers are ever hit
HitsAreRegistered == covhit \subseteq AllMarkers(main)
\* the exit status is the requirement's unless a case deviates
ExitAgrees == pc = "idle" => ((\A i \in 1..Len(cases) : ~Deviates(cases[i])) => ExitMech = ExitReq)

(***************************************************************************)
(* Behaviours for the replayer                                             *)
(***************************************************************************)
Emit ==
  PrintT(<<"BEHAVIOUR", ToJson(
     [kind |-> "run", main |-> main, cov |-> cov, order |-> order,
      tests |-> [i \in 1..Len(order) |-> [name |-> order[i], scopes |-> Tests[order[i]].scopes,
                                           skip |-> Tests[order[i]].skip, body |-> Tests[order[i]].body]],
      cases |-> cases, summary |-> Summary, counter |-> counter,
      coverage |-> IF cov
                   THEN [total |-> [k \in {"subroutine", "statement", "branch"} |-> KindCount(AllMarkers(main), main, k)],
                         hit   |-> [k \in {"subroutine", "statement", "branch"} |-> KindCount(covhit, main, k)]]
                   ELSE [total |-> [k \in {"subroutine", "statement", "branch"} |-> 0],
                         hit   |-> [k \in {"subroutine", "statement", "branch"} |-> 0]],
      exitReq |-> ExitReq, exitMech |-> ExitMech])>>)

EmitMain ==
  PrintT(<<"BEHAVIOUR", ToJson([kind |-> "main", main |-> main, prog |-> MainProg(main), testsubs |-> TestSubs, fixture |-> Fixture0,
                                 nmarkers |-> Cardinality(UNION {{ <<n, j>> : j \in 1..Len(Instrument(MainProg(main))[n].body)} :
                                                                   n \in DOMAIN MainProg(main)})])>>)

EmitInv == /\ (order = << >>) => EmitMain
           /\ (pc = "idle" /\ Len(order) >= Len(Prefix) /\ (EmitAll \/ Len(order) = Len(Prefix) + MaxLen)) => Emit
=============================================================================
