SPECIFICATION Spec
CONSTANTS
  MaxLen = 2
  Pool <- AllTests
  Coverages <- BothCov
  MainIds <- MainOne
  EmitAll = FALSE
  MaxFam = 1
INVARIANTS
  VerdictFaithful
  CountsAddUp
  ExitFaithful
  ExitAgrees
  BoundCurrent
  FixtureIntact
  NoCovNoDeviation
  HitsAreRegistered
  EmitInv
CHECK_DEADLOCK FALSE
