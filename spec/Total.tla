-------------------------------- MODULE Total --------------------------------
(***************************************************************************)
(* Totality of the simulator (property C08): for every program and request *)
(* the simulator returns a response or a *reported* runtime error - it     *)
(* never crashes (Go panic / fatal error) and never runs forever.          *)
(*                                                                         *)
(* REQUIREMENT  Outcome \in {"value", "error"} for every case below -      *)
(*              nothing else is demanded: what the value is belongs to C07 *)
(*              (spec/Eval.tla), whether a type combination is accepted to *)
(*              C05.                                                       *)
(* MECHANISM    Predict(case): which of the two falco produces, read from  *)
(*              interpreter/assign/*.go (type arms, literal restrictions,  *)
(*              zero-divisor and shift-count guards), the call-depth guard *)
(*              of ProcessSubroutine (maxCallStackExceedCount) and the     *)
(*              include resolver.  A wrong prediction is DRIFT, a panic or *)
(*              a hang is a violation.                                     *)
(*                                                                         *)
(* Operands are *classes* (symbols); the replayer's concretise table maps  *)
(* them to VCL text (e.g. "MAX" -> 9223372036854775807, "NAN" -> math.NAN).*)
(*                                                                         *)
(* Four families, selected by Mode:                                        *)
(*   "assign"   assignment operator x left type x left class x right type  *)
(*              x right class x operand form (literal / variable)          *)
(*   "builtin"  built-in function x declared signature x argument class    *)
(*              vectors (table generated from __generator__/builtin.yml)   *)
(*   "calls"    every call graph over vcl_recv + 3 subroutines (2^9 edge   *)
(*              sets) x 1..MaxReq requests: recursion is cut by the guard  *)
(*   "include"  every include graph over main + 2 modules                  *)
(*   "jump"     control transfer (restart / error / return) out of a called *)
(*              plain / functional subroutine, top-level or nested, from    *)
(*              every lifecycle scope                                       *)
(*   "initerr"  programs rejected at request initialisation x 2..3 requests *)
(*              on one simulator instance                                   *)
(*   "director" director declarations with boundary weight/quorum/retries   *)
(*   "request"  method x path x query x header classes x four programs     *)
(*              that take the request apart (URL parts, query string       *)
(*              functions, regular expressions, cookies / sub-fields)      *)
(***************************************************************************)
EXTENDS Integers, Sequences, FiniteSets, TLC, Json, BuiltinsTable, VariablesTable

CONSTANTS Mode, MaxReq
EsiLen == IF MaxReq >= 3 THEN 5 ELSE 4       \* documents of up to 4 tokens (quick), 5 (thorough; MaxReq doubles as the tier switch)

-----------------------------------------------------------------------------
(* assignment cells *)
Ops == {"=", "+=", "-=", "*=", "/=", "%=", "|=", "&=", "^=", "<<=", ">>=", "rol=", "ror=", "||=", "&&="}
LeftTypes == {"INTEGER", "FLOAT", "STRING", "BOOL", "RTIME", "IP", "HEADER"}
RightTypes == {"INTEGER", "FLOAT", "STRING", "BOOL", "RTIME", "IP"}
Classes(t) ==
  CASE t = "INTEGER" -> {"0", "1", "-1", "2", "63", "64", "65", "-64", "P31", "MAX", "MIN"}
    [] t = "FLOAT"   -> {"0.0", "0.5", "-1.5", "2.0", "BIG", "NAN", "PINF", "NINF"}
    [] t = "STRING"  -> {"empty", "notset", "a", "num"}
    [] t = "HEADER"  -> {"empty", "notset", "a"}
    [] t = "BOOL"    -> {"true", "false"}
    [] t = "RTIME"   -> {"0s", "1s", "-1s", "BIG"}
    [] t = "IP"      -> {"v4", "v6", "notset"}
\* left operands: a smaller set of classes is enough (the boundary behaviour sits in the right operand and the extremes)
LeftClasses(t) ==
  CASE t = "INTEGER" -> {"0", "1", "-1", "-64", "MAX", "MIN"}
    [] t = "FLOAT"   -> {"0.0", "-1.5", "BIG", "NAN", "PINF"}
    [] OTHER         -> Classes(t)
\* classes that can be written as a literal (the others only exist as values of variables)
HasLiteral(t, c) == ~(c \in {"NAN", "PINF", "NINF", "notset"})
Forms(t, c) == IF HasLiteral(t, c) THEN {"lit", "var"} ELSE {"var"}

AssignFam(vt, op) ==
  UNION { { [k |-> "assign", vt |-> vt, op |-> op, l |-> x[1], rt |-> rt, r |-> x[2], form |-> x[3]]
              : x \in {y \in LeftClasses(vt) \X Classes(rt) \X {"lit", "var"} : y[3] \in Forms(rt, y[2])} }
          : rt \in RightTypes }

(* mechanism: does the assignment produce a value or a reported error? *)
IsZeroInt(c) == c = "0"
IsZeroFloat(c) == c = "0.0"
TruncZeroFloat(c) == c \in {"0.0", "0.5"}                 \* int64(x) = 0
NegInt(c) == c \in {"-1", "-64", "MIN"}
Var(f) == f = "var"
Exotic(c) == c \in {"NAN", "PINF", "NINF", "BIG", "MAX", "MIN", "P31"}
\* type arms of interpreter/assign/*.go: TRUE = the (left type, right type, form) combination is accepted
ArmAssign(vt, rt, f) ==
  CASE vt = "INTEGER" -> rt = "INTEGER" \/ (rt \in {"FLOAT", "RTIME"} /\ Var(f))
    [] vt = "FLOAT"   -> rt \in {"INTEGER", "FLOAT"} \/ (rt = "RTIME" /\ Var(f))
    [] vt = "STRING"  -> rt \in {"STRING", "BOOL", "IP"} \/ (rt \in {"INTEGER", "FLOAT", "RTIME"} /\ Var(f))
    [] vt = "RTIME"   -> rt = "RTIME" \/ (rt \in {"INTEGER", "FLOAT"} /\ Var(f))
    [] vt = "BOOL"    -> rt = "BOOL"
    [] vt = "IP"      -> rt \in {"STRING", "IP"}
ArmAddSub(vt, rt, f, isAdd) ==
  CASE vt = "INTEGER" -> rt = "INTEGER" \/ (rt \in {"FLOAT", "RTIME"} /\ Var(f))
    [] vt = "FLOAT"   -> rt \in {"INTEGER", "FLOAT"} \/ (rt = "RTIME" /\ Var(f))
    [] vt = "RTIME"   -> rt = "RTIME" \/ (rt \in {"INTEGER", "FLOAT"} /\ Var(f))
    [] vt = "STRING"  -> isAdd
    [] OTHER          -> FALSE
ArmMulDiv(vt, rt, f) ==
  CASE vt = "INTEGER" -> rt = "INTEGER" \/ (rt = "FLOAT" /\ Var(f))
    [] vt = "FLOAT"   -> rt \in {"INTEGER", "FLOAT"}
    [] vt = "RTIME"   -> rt \in {"INTEGER", "FLOAT"}
    [] OTHER          -> FALSE
PredictLocal(c) ==
  LET vt == c.vt  op == c.op  rt == c.rt  r == c.r  f == c.form
      ok(b) == IF b THEN "value" ELSE "error" IN
  CASE op = "="  -> IF vt = "IP" /\ rt = "STRING" THEN ok(f = "var")        \* an invalid IP literal is an error, an invalid variable gives not-set
                    ELSE ok(ArmAssign(vt, rt, f))
    [] op = "+=" -> ok(ArmAddSub(vt, rt, f, TRUE))
    [] op = "-=" -> ok(ArmAddSub(vt, rt, f, FALSE))
    [] op = "*=" -> ok(ArmMulDiv(vt, rt, f))
    [] op = "/=" -> IF ArmMulDiv(vt, rt, f) /\ rt = "FLOAT" /\ r \in {"NAN", "PINF", "NINF"} THEN "any"    \* flagged values carry a zero payload
                    ELSE ok(ArmMulDiv(vt, rt, f) /\ ~(rt = "INTEGER" /\ IsZeroInt(r)) /\ ~(rt = "FLOAT" /\ IsZeroFloat(r)))
    [] op = "%=" -> IF ~ArmMulDiv(vt, rt, f) THEN "error"
                    ELSE IF Exotic(c.l) \/ Exotic(r) THEN "any"       \* infinity / NaN flags and overflowing products: not predicted
                    ELSE IF rt = "INTEGER" THEN ok(~IsZeroInt(r))
                    ELSE ok(~TruncZeroFloat(r))
    [] op \in {"|=", "&=", "^=", "rol=", "ror="} -> ok(vt = "INTEGER" /\ rt = "INTEGER")
    [] op \in {"<<=", ">>="} -> ok(vt = "INTEGER" /\ rt = "INTEGER" /\ ~NegInt(r))
    [] op \in {"||=", "&&="} -> ok(vt = "BOOL" /\ rt = "BOOL")
\* a header takes the string form of anything with "=", appends with "+=", rejects the other operators
PredictHeader(c) == IF c.op \in {"=", "+="} THEN "value" ELSE "error"
PredictAssign(c) == IF c.vt = "HEADER" THEN PredictHeader(c) ELSE PredictLocal(c)

-----------------------------------------------------------------------------
(* built-in functions: Builtins (from BuiltinsTable) is a sequence of       *)
(* [fn, scope, ret, sigs: sequence of sequences of argument types]          *)
NClasses == 20       \* the concretiser knows classes 1..NClasses per argument type (fewer distinct ones for most types; STRING has 20:
                     \* lengths 0-3, not set, truncated / malformed escapes, invalid UTF-8, lone quote / backslash, separators only, 64 KiB)
NPair == 8           \* classes combined pairwise with INTEGER parameters
\* all class vectors of length n when there are few, else the "star": all-k vectors plus one argument varied at a time;
\* and, for every INTEGER parameter, all class pairs with every other parameter - sizes and counts multiply
\* (len(s) * count, width - len(s), ...) and such products wrap only for particular *combinations* of extremes
AllVectors(n) == [1..n -> 1..NClasses]
Star(n) == {[i \in 1..n |-> k] : k \in 1..NClasses} \cup
           {[i \in 1..n |-> IF i = j THEN k ELSE b] : j \in 1..n, k \in 1..NClasses, b \in {1, 2}}
IntPairs(types) == LET n == Len(types) IN
  {[i \in 1..n |-> IF i = x[1] THEN x[3] ELSE IF i = x[2] THEN x[4] ELSE 2]
     : x \in {y \in (1..n) \X (1..n) \X (1..NPair) \X (1..NPair) : y[1] # y[2] /\ types[y[1]] = "INTEGER"}}
Vectors(types, full) == LET n == Len(types) IN
  IF n = 0 THEN {<<>>} ELSE IF full /\ n <= 2 THEN AllVectors(n) ELSE Star(n) \cup IntPairs(types)
BuiltinFam(i, full) ==
  UNION { { [k |-> "builtin", fn |-> Builtins[i].fn, scope |-> Builtins[i].scope, ret |-> Builtins[i].ret,
             types |-> Builtins[i].sigs[j], classes |-> v] : v \in Vectors(Builtins[i].sigs[j], full) }
          : j \in 1..Len(Builtins[i].sigs) }

-----------------------------------------------------------------------------
(* call graphs: nodes 0 = vcl_recv, 1..3 = subroutines s1..s3; an edge i -> j is a `call sj;` in the body of i.      *)
(* vcl_recv always calls s1.  The call-depth guard turns every cycle reachable from s1 into a reported error.        *)
Subs == 1..3
EdgeSets == SUBSET (Subs \X Subs)
RECURSIVE Reach(_, _)
Reach(E, S) == LET T == S \cup {e[2] : e \in {x \in E : x[1] \in S}} IN IF T = S THEN S ELSE Reach(E, T)
\* a cycle is reachable from s1 iff some reachable node reaches itself in >= 1 step
Succ(E, n) == {e[2] : e \in {x \in E : x[1] = n}}
Cyclic(E) == \E n \in Reach(E, {1}) : n \in Reach(E, Succ(E, n)) /\ Succ(E, n) # {}
Guard == 100
\* requirement on the model itself: with the guard the depth is bounded whatever the graph
DepthBound(E) == IF Cyclic(E) THEN Guard + 1 ELSE Cardinality(Reach(E, {1}))
\* functional: the three subroutines are functional subroutines (STRING) and an edge is a call expression - the
\* interpreter keeps a second copy of the frame / guard logic for those (ProcessFunctionSubroutine)
CallCells == { [k |-> "calls", edges |-> {<<e[1], e[2]>> : e \in E}, nreq |-> n, functional |-> f, cyclic |-> Cyclic(E), depth |-> DepthBound(E)]
                 : E \in EdgeSets, n \in 1..MaxReq, f \in BOOLEAN }
PredictCalls(c) == IF c.cyclic THEN "error" ELSE "value"

(* LARGE structured call graphs: linearly many subroutines, exponentially many paths.  shape "ring": s_k calls        *)
(* s_k+1 (twice when doubled); "ladder": s_k calls s_k+1 and s_k+2; "layers": layers of 3, every sub calls all of    *)
(* the next layer; recursive: the last one(s) call s_0 again.  CheckFastlyCallTreeLimit walks this graph at every    *)
(* request initialisation: with memoised totals it is linear.  Cost(k) = sum over calls of (1 + cost(callee)),        *)
(* saturated at the limit; above MaxCallTree the program is rejected ("Too many sub calls"), a recursive one is      *)
(* stopped by the limit or by the call-depth guard - in every case a reported error, within the watchdog.            *)
MaxCallTree == 25000
Sat(x) == IF x > MaxCallTree THEN MaxCallTree + 1 ELSE x
RECURSIVE RingCost(_, _), LadderCost(_), LayerCost(_)
RingCost(levels, dbl) == IF levels = 0 THEN 0 ELSE Sat((IF dbl THEN 2 ELSE 1) * (1 + RingCost(levels - 1, dbl)))
LadderCost(levels) == IF levels <= 0 THEN 0 ELSE IF levels = 1 THEN 1 ELSE Sat(2 + LadderCost(levels - 1) + LadderCost(levels - 2))
LayerCost(layers) == IF layers <= 1 THEN 0 ELSE Sat(3 * (1 + LayerCost(layers - 1)))
BigCost(c) == CASE c.shape = "ring" -> RingCost(c.size - 1, c.doubled) [] c.shape = "ladder" -> Sat(LadderCost(IF c.size > 24 THEN 24 ELSE c.size - 1))
                [] c.shape = "layers" -> LayerCost(c.size \div 3)
BigCallCells == { [k |-> "bigcalls", shape |-> sh, size |-> n, doubled |-> d, recursive |-> r, functional |-> f, nreq |-> 2]
                    : sh \in {"ring", "ladder", "layers"}, n \in {6, 12, 20, 30, 49, 60}, d \in BOOLEAN, r \in BOOLEAN, f \in BOOLEAN }
\* the entry call is guarded by a header no request carries (the graph is walked at initialisation, not executed); only
\* `call` statements count, so functional graphs cost nothing; closing the cycle can only add to the cost
PredictBig(c) == IF ~c.functional /\ BigCost(c) > MaxCallTree THEN "error" ELSE "any"

(* include graphs: node 0 = main, 1..2 = modules m1, m2; an edge i -> j is `include "mj";` (j = 0: include "main") *)
Mods == 0..2
IncEdgeSets == SUBSET (Mods \X Mods)
IncCyclic(E) == \E n \in Reach(E, {0}) : n \in Reach(E, Succ(E, n)) /\ Succ(E, n) # {}
IncludeCells == { [k |-> "include", edges |-> {<<e[1], e[2]>> : e \in E}, cyclic |-> IncCyclic(E)] : E \in IncEdgeSets }
\* a module reached along two paths is expanded twice and its declarations collide: not predicted
PredictInclude(c) == IF c.cyclic THEN "error"
                     ELSE IF \E n \in Mods : Cardinality({e \in c.edges : e[2] = n}) > 1 THEN "any" ELSE "value"

(* requests: method x path x query x header classes x a program that inspects the request (ServeHTTP path) *)
RequestCells == { [k |-> "request", method |-> m, path |-> p, query |-> q, headers |-> h, prog |-> g]
                    : m \in {"GET", "POST", "PURGE", "WEIRD"}, p \in {"root", "deep", "long", "nonascii", "encoded"},
                      q \in {"none", "empty", "dup", "long", "odd"}, h \in {"none", "plain", "dup", "empty", "long", "evil", "nonascii"},
                      g \in {"echo", "query", "regex", "cookie"} }

(* control transfer out of a called subroutine: restart / return(restart) / error / return(error) / a forward action, *)
(* as the top-level statement of the callee or nested in if / switch / block, the callee being a plain subroutine,    *)
(* a functional subroutine invoked with `call`, or a functional subroutine used in an expression, called              *)
(* unconditionally from each lifecycle scope - only the restart bound can end such a request.  The interpreter has   *)
(* two copies of the statement dispatch (ProcessBlockStatement, ProcessFunctionSubroutine) that must agree.           *)
JumpCells == { [k |-> "jump", jstmt |-> st, nest |-> n, callkind |-> c, scope |-> sc, nreq |-> 3]
                 : st \in {"restart_stmt", "restart_ret", "error_stmt", "error_ret", "action_ret", "synthetic_stmt", "synthetic64_stmt", "esi_stmt"},
                   n \in {"top", "if", "switch", "block"},
                   c \in {"plain", "fcall", "fexpr"}, sc \in {"recv", "hit", "miss", "pass", "fetch", "error", "deliver"} }
MaxRestarts == 3
\* requirement besides value-or-error: however the restart is written, a request is restarted at most MaxRestarts times

(* programs the simulator rejects when it initialises a request, followed by more requests on the SAME instance:      *)
(* every request of the history must be answered (an init error is deterministic, so each one is a reported error)    *)
InitErrClasses == {"dup-sub", "dup-table", "dup-acl", "dup-backend", "dup-director", "six-backends", "include-missing", "include-self",
                   "call-tree", "director-empty", "parse-error", "runtime-control"}
InitErrCells == { [k |-> "initerr", class |-> cl, nreq |-> n] : cl \in InitErrClasses, n \in 2..3 }

(* director declarations with boundary weights / quorum / retries, selected as the backend of a passed request *)
DirTypes == {"random", "fallback", "hash", "client", "chash"}
\* route: the scope in which `set req.backend = <target>;` is executed (every scope where req.backend is writable, incl.
\* AFTER the backend request was prepared: miss, pass) and how the request goes on to a real fetch; target: a director
\* of each type, a director whose member is another director ("<type>-of-director"), or the plain second backend.
\* Each cell runs on a fresh simulator instance (a backend chosen by an earlier request must not mask anything).
DirRoutes == {"recv-pass", "recv-lookup", "miss", "pass", "hit", "fetch-restart", "error-restart", "deliver-restart"}
DirectorCells == { [k |-> "director", dtype |-> t, weight |-> w, quorum |-> q, retries |-> r, route |-> "recv-pass", nreq |-> 2]
                     : t \in DirTypes, w \in {"1", "-1", "500", "501", "1000", "1001", "MAX"},
                       q \in {"-1", "0", "50", "100", "101"}, r \in {"-1", "0", "1", "MAX"} } \cup
                 { [k |-> "director", dtype |-> t, weight |-> "1", quorum |-> "50", retries |-> "0", route |-> ro, nreq |-> 3]
                     : t \in DirTypes \cup {"plain"} \cup {"random-of-director", "fallback-of-director", "hash-of-director", "client-of-director", "chash-of-director"},
                       ro \in DirRoutes }

(* ESI: `esi;` in vcl_fetch and an origin document made of tokens.  Requirement: the response arrives (value or reported *)
(* error) whatever the document.  Mechanism (interpreter/esi.go executeESI, DRIFT only): repeatedly - find the next     *)
(* include; copy what precedes it; a fetched include (INCOK: absolute URL of the stub) contributes FRAG and the NEXT    *)
(* <esi:remove>..</esi:remove> block anywhere behind it is dropped together with everything before it; a failed include *)
(* (INCFAIL: relative URL, nothing listens) contributes the CONTENT of the next remove block, or ends the processing     *)
(* when there is none; an unclosed remove block is a reported error.  Comments and unterminated tags are plain text.   *)
EsiTokens == {"T5", "T40", "INCOK", "INCFAIL", "RS", "FB", "RE", "COM", "HC", "UNT"}
FirstOf(seq, S) == LET I == {i \in 1..Len(seq) : seq[i] \in S} IN IF I = {} THEN 0 ELSE CHOOSE i \in I : \A j \in I : i <= j
From(seq, i) == SubSeq(seq, i, Len(seq))
RECURSIVE Esi(_, _)
Esi(body, out) ==
  LET i == FirstOf(body, {"INCOK", "INCFAIL"}) IN
  IF i = 0 THEN [out |-> out \o body, err |-> FALSE]
  ELSE LET out1 == out \o SubSeq(body, 1, i - 1)
           rest == From(body, i + 1)
           rs   == FirstOf(rest, {"RS"})
           after == From(rest, rs + 1)
           re   == FirstOf(after, {"RE"}) IN
       IF body[i] = "INCOK" THEN
            (IF rs = 0 THEN Esi(rest, Append(out1, "FRAG"))
             ELSE IF re = 0 THEN [out |-> <<>>, err |-> TRUE]
             ELSE Esi(From(after, re + 1), Append(out1, "FRAG")))
       ELSE (IF rs = 0 THEN [out |-> out1 \o rest, err |-> FALSE]
             ELSE IF re = 0 THEN [out |-> <<>>, err |-> TRUE]
             ELSE Esi(From(after, re + 1), out1 \o SubSeq(after, 1, re - 1)))
EsiDocs(n) == UNION {[1..k -> EsiTokens] : k \in 0..n}
EsiCells(first) == { [k |-> "esi", doc |-> d, out |-> Esi(d, <<>>).out, experr |-> Esi(d, <<>>).err]
                       : d \in {x \in EsiDocs(EsiLen) : Len(x) = 0 \/ x[1] = first} }
\* structured documents (longer than the exhaustive bound): head, up to three includes - fetched or failing, with or
\* without a remove block behind them - and gaps whose lengths are shorter than, equal to and longer than the head
Texts == {<<>>, <<"T5">>, <<"T40">>}
Incs == {<<i>> : i \in {"INCOK", "INCFAIL"}} \cup {<<i, "RS", "FB", "RE">> : i \in {"INCOK", "INCFAIL"}}
EsiStruct == { h \o a \o g \o b \o g2 \o c : h \in Texts, a \in Incs, g \in Texts, b \in Incs \cup {<<>>}, g2 \in Texts, c \in Incs \cup {<<>>} }
EsiStructCells == { [k |-> "esi", doc |-> d, out |-> Esi(d, <<>>).out, experr |-> Esi(d, <<>>).err] : d \in EsiStruct }
\* the replay asks for the actual response (to see the body): in that mode the simulator answers 200 also when
\* executeESI reports a syntax error, so the outcome kind is predicted only for well-formed documents
PredictEsi(c) == IF c.experr THEN "any" ELSE "value"

(* every predefined variable that can be read in vcl_error / vcl_deliver / vcl_log (VariablesTable, generated from       *)
(* __generator__/predefined.yml), read there after each unusual path of the request: the getters of these scopes look   *)
(* at optional parts of the context (backend request / response, object, client response) that such paths leave unset  *)
VarPaths == {"normal", "error-recv", "error-miss", "error-fetch", "restart-after-error", "pass", "deliver-stale", "synthetic"}
VarCells(i) == { [k |-> "vars", name |-> Variables[i].name, scope |-> sc, path |-> p] : sc \in Variables[i].scopes, p \in VarPaths }

-----------------------------------------------------------------------------
VARIABLES phase, item
vars == <<phase, item>>

\* families are split into slices so that TLC's workers share the enumeration
Keys == CASE Mode = "assign"  -> {<<vt, op>> : vt \in LeftTypes, op \in Ops}
          [] Mode = "builtin" -> {<<i, 0>> : i \in 1..Len(Builtins)}
          [] Mode = "builtin-full" -> {<<i, 0>> : i \in 1..Len(Builtins)}
          [] Mode = "calls"   -> {<<n, 0>> : n \in 1..MaxReq}
          [] Mode = "include" -> {<<0, 0>>}
          [] Mode = "request" -> {<<g, 0>> : g \in {"echo", "query", "regex", "cookie"}}
          [] Mode = "jump"    -> {<<c, 0>> : c \in {"plain", "fcall", "fexpr"}}
          [] Mode = "vars"    -> {<<i, 0>> : i \in 1..Len(Variables)}
          [] Mode = "bigcalls" -> {<<sh, 0>> : sh \in {"ring", "ladder", "layers"}}
          [] Mode = "initerr" -> {<<0, 0>>}
          [] Mode = "director" -> {<<t, 0>> : t \in {"random", "fallback", "hash", "client", "chash", "other"}}
          [] Mode = "esi"     -> {<<t, 0>> : t \in EsiTokens \cup {"struct"}}
Fam(key) ==
  CASE Mode = "assign"  -> AssignFam(key[1], key[2])
    [] Mode \in {"builtin", "builtin-full"} -> BuiltinFam(key[1], Mode = "builtin-full")
    [] Mode = "calls"   -> {c \in CallCells : c.nreq = key[1]}
    [] Mode = "include" -> IncludeCells
    [] Mode = "request" -> {c \in RequestCells : c.prog = key[1]}
    [] Mode = "jump"    -> {c \in JumpCells : c.callkind = key[1]}
    [] Mode = "bigcalls" -> {c \in BigCallCells : c.shape = key[1]}
    [] Mode = "vars"    -> VarCells(key[1])
    [] Mode = "initerr" -> InitErrCells
    [] Mode = "director" -> {c \in DirectorCells : IF key[1] = "other" THEN c.dtype \notin DirTypes ELSE c.dtype = key[1]}
    [] Mode = "esi"     -> IF key[1] = "struct" THEN EsiStructCells ELSE EsiCells(key[1])
Predict(c) == CASE c.k = "assign" -> PredictAssign(c) [] c.k = "builtin" -> "any" [] c.k = "calls" -> PredictCalls(c)
                [] c.k = "include" -> PredictInclude(c) [] c.k = "request" -> "any" [] c.k = "jump" -> "any" [] c.k = "bigcalls" -> PredictBig(c) [] c.k = "vars" -> "any" [] c.k = "director" -> "any" [] c.k = "esi" -> PredictEsi(c)
                [] c.k = "initerr" -> "error"

Init == phase = "part" /\ item \in Keys
Next == phase = "part" /\ \E c \in Fam(item) : item' = c /\ phase' = "emit"
Spec == Init /\ [][Next]_vars

\* REQUIREMENT: the only admissible outcomes
Allowed == {"value", "error"}
\* mechanism |= requirement on the model: every prediction is an admissible outcome, the guarded depth is bounded
PredictionAdmissible == (phase = "emit") => (Predict(item) \in Allowed \cup {"any"})     \* "any" = not predicted
DepthBounded == (phase = "emit" /\ item.k = "calls") => item.depth <= Guard + 1
EmitInv == (phase = "emit") => PrintT(<<"BEHAVIOUR", ToJson([case |-> item, allowed |-> Allowed, predict |-> Predict(item)])>>)
=============================================================================
