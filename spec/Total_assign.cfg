SPECIFICATION Spec
CONSTANTS
  Mode = "assign"
  MaxReq = 2
INVARIANTS
  PredictionAdmissible
  DepthBounded
  EmitInv
CHECK_DEADLOCK FALSE
