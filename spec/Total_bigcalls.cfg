SPECIFICATION Spec
CONSTANTS
  Mode = "bigcalls"
  MaxReq = 2
INVARIANTS
  PredictionAdmissible
  DepthBounded
  EmitInv
CHECK_DEADLOCK FALSE
