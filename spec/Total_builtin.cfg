SPECIFICATION Spec
CONSTANTS
  Mode = "builtin"
  MaxReq = 2
INVARIANTS
  PredictionAdmissible
  DepthBounded
  EmitInv
CHECK_DEADLOCK FALSE
