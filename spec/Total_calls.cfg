SPECIFICATION Spec
CONSTANTS
  Mode = "calls"
  MaxReq = 2
INVARIANTS
  PredictionAdmissible
  DepthBounded
  EmitInv
CHECK_DEADLOCK FALSE
