SPECIFICATION Spec
CONSTANTS
  Mode = "director"
  MaxReq = 2
INVARIANTS
  PredictionAdmissible
  DepthBounded
  EmitInv
CHECK_DEADLOCK FALSE
