SPECIFICATION Spec
CONSTANTS
  Mode = "esi"
  MaxReq = 2
INVARIANTS
  PredictionAdmissible
  DepthBounded
  EmitInv
CHECK_DEADLOCK FALSE
