SPECIFICATION Spec
CONSTANTS
  Mode = "include"
  MaxReq = 2
INVARIANTS
  PredictionAdmissible
  DepthBounded
  EmitInv
CHECK_DEADLOCK FALSE
