SPECIFICATION Spec
CONSTANTS
  Mode = "initerr"
  MaxReq = 2
INVARIANTS
  PredictionAdmissible
  DepthBounded
  EmitInv
CHECK_DEADLOCK FALSE
