SPECIFICATION Spec
CONSTANTS
  Mode = "jump"
  MaxReq = 2
INVARIANTS
  PredictionAdmissible
  DepthBounded
  EmitInv
CHECK_DEADLOCK FALSE
