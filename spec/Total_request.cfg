SPECIFICATION Spec
CONSTANTS
  Mode = "request"
  MaxReq = 2
INVARIANTS
  PredictionAdmissible
  DepthBounded
  EmitInv
CHECK_DEADLOCK FALSE
