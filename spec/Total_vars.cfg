SPECIFICATION Spec
CONSTANTS
  Mode = "vars"
  MaxReq = 2
INVARIANTS
  PredictionAdmissible
  DepthBounded
  EmitInv
CHECK_DEADLOCK FALSE
