SPECIFICATION Spec
CONSTANTS
  MaxStops = 3
  MaxBurst = 3
  Emit = TRUE
INVARIANTS
  TypeOK
  DisciplinedNeverFreezes
  AnsweredByKeys
  StuckOnlyByCycle
  EmitInv
PROPERTIES
  FrozenForever
CHECK_DEADLOCK FALSE
