------------------------------ MODULE TuiLoop ------------------------------
(***************************************************************************)
(* The key-handling protocol of the terminal debugger (extension X01,      *)
(* front end `falco simulate -debug`).                                     *)
(*                                                                         *)
(* Anchors: debugger/console.go   keyEventHandler, ServeHTTP, activate,    *)
(*                                deactivate                               *)
(*          debugger/debugger.go  breakPoint                               *)
(*          rivo/tview            Application.Run (event loop),            *)
(*                                Application.Draw = QueueUpdate (blocks   *)
(*                                until the event loop has run the update) *)
(*                                                                         *)
(* Two goroutines and one unbuffered channel:                              *)
(*   event loop  takes key events and queued updates one at a time; for a  *)
(*               function key, while a request is being debugged, the key  *)
(*               handler SENDS the command on stateChan (blocking);        *)
(*   request     the HTTP handler running the interpreter: activate() and  *)
(*               deactivate() and every breakPoint() call app.Draw(),      *)
(*               which returns only after the event loop ran the update;   *)
(*               breakPoint() then RECEIVES from stateChan.                *)
(*                                                                         *)
(* REQUIREMENT: whatever keys the user presses, the request completes and  *)
(* the console stays responsive.  TLC shows it holds for a user who        *)
(* presses exactly one key per stop, and finds the cycle otherwise: the    *)
(* event loop blocked sending a key nobody waits for, the request blocked  *)
(* waiting for the event loop to draw.                                     *)
(***************************************************************************)
EXTENDS Integers, TLC, Json

CONSTANTS MaxStops,   \* the request stops 1..MaxStops times
          MaxBurst,   \* the user presses 1..MaxBurst keys in a burst once the first stop is reached
          Emit

VARIABLES S, K,       \* parameters of the behaviour: stops of the request, size of the burst
          ipc,        \* request goroutine: idle, act, run, draw, wait, fin, done
          lpc,        \* event loop: idle, send
          queued,     \* key events queued for the event loop
          dbg,        \* Console.isDebugging
          stops,      \* stops still ahead
          reached,    \* the first stop has been reached
          pressed,    \* keys pressed so far
          answered    \* stops answered so far
vars == <<S, K, ipc, lpc, queued, dbg, stops, reached, pressed, answered>>

Init == /\ S \in 1..MaxStops /\ K \in 1..MaxBurst
        /\ ipc = "idle" /\ lpc = "idle" /\ queued = 0 /\ dbg = FALSE /\ stops = S
        /\ reached = FALSE /\ pressed = 0 /\ answered = 0

(* request goroutine *)
Start    == ipc = "idle" /\ ipc' = "act" /\ dbg' = TRUE                       \* ServeHTTP: activate() sets the flag, then Draw
            /\ UNCHANGED <<S, K, lpc, queued, stops, reached, pressed, answered>>
HitBreak == ipc = "run" /\ stops > 0 /\ ipc' = "draw" /\ stops' = stops - 1   \* breakPoint: SetFile, Draw ...
            /\ UNCHANGED <<S, K, lpc, queued, dbg, reached, pressed, answered>>
Finish   == ipc = "run" /\ stops = 0 /\ ipc' = "fin" /\ dbg' = FALSE          \* deactivate(): clears the flag, then Draw
            /\ UNCHANGED <<S, K, lpc, queued, stops, reached, pressed, answered>>

(* event loop *)
ServeDraw == /\ lpc = "idle" /\ ipc \in {"act", "draw", "fin"}
             /\ ipc' = CASE ipc = "act" -> "run" [] ipc = "draw" -> "wait" [] ipc = "fin" -> "done"
             /\ reached' = (reached \/ ipc = "draw")                           \* the stop is on the screen now
             /\ UNCHANGED <<S, K, lpc, queued, dbg, stops, pressed, answered>>
TakeKey   == /\ lpc = "idle" /\ queued > 0 /\ queued' = queued - 1
             /\ lpc' = IF dbg THEN "send" ELSE "idle"                         \* keyEventHandler: `if !c.isDebugging.Load() { return }`
             /\ UNCHANGED <<S, K, ipc, dbg, stops, reached, pressed, answered>>
Rendezvous == /\ lpc = "send" /\ ipc = "wait" /\ lpc' = "idle" /\ ipc' = "run" \* stateChan <- cmd  meets  d.mode = <-d.input
              /\ answered' = answered + 1
              /\ UNCHANGED <<S, K, queued, dbg, stops, reached, pressed>>

(* user: a burst of K keys once the first stop is on the screen, afterwards one key per stop *)
Press == /\ reached
         /\ \/ pressed < K
            \/ pressed >= K /\ ipc = "wait" /\ lpc = "idle" /\ queued = 0 /\ pressed = answered
         /\ pressed < S + MaxBurst
         /\ pressed' = pressed + 1 /\ queued' = queued + 1
         /\ UNCHANGED <<S, K, ipc, lpc, dbg, stops, reached, answered>>

Next == Start \/ HitBreak \/ Finish \/ ServeDraw \/ TakeKey \/ Rendezvous \/ Press
Spec == Init /\ [][Next]_vars

Frozen    == lpc = "send" /\ ipc \in {"act", "draw", "fin"}     \* each waits for the other: nothing can ever move them
Completed == ipc = "done"

TypeOK == /\ ipc \in {"idle", "act", "run", "draw", "wait", "fin", "done"} /\ lpc \in {"idle", "send"}
          /\ queued >= 0 /\ stops \in 0..MaxStops /\ answered <= S
\* a frozen state is permanent for both goroutines
FrozenForever == [][Frozen => (lpc' = lpc /\ ipc' = ipc)]_vars
\* the user who presses one key per stop never freezes the console
DisciplinedNeverFreezes == K = 1 => ~Frozen
\* every stop that is answered was answered by a key the user pressed
AnsweredByKeys == answered <= pressed
\* the only way not to complete is the cycle (no other stuck state exists)
StuckOnlyByCycle == (~ENABLED Next) => (Completed \/ Frozen)

Outcome == IF Frozen THEN "frozen" ELSE IF Completed /\ queued = 0 /\ lpc = "idle" THEN "completes" ELSE "running"
EmitInv == (Emit /\ Outcome # "running") => PrintT(<<"BEHAVIOUR", ToJson([S |-> S, K |-> K, outcome |-> Outcome])>>)
=============================================================================
