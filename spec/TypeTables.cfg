SPECIFICATION Spec
CONSTANTS
  Mode = "all"
  Pairs = FALSE
  SliceMod = 1
  SliceRem = 0
INVARIANTS
  PairConjunction
  EmitInv
CHECK_DEADLOCK FALSE
