----------------------------- MODULE TypeTables -----------------------------
(***************************************************************************)
(* C05: the language the linter accepts = the language the reference       *)
(* tables describe, and what is accepted runs in the simulator.            *)
(*                                                                         *)
(* requirement  - Class / AssignOK / CompareOK: the Fastly assignment and  *)
(*                comparison type rules (the table the linter and the      *)
(*                simulator both cite, as falco documents it: "allows both *)
(*                variable and literal / variable only / disallow"),       *)
(*              - VarTable / FnTable: falco's bundled reference tables,    *)
(*                GENERATED at check time from __generator__/predefined.yml*)
(*                and builtin.yml (modules Predefined, Builtins),          *)
(*              - StmtScopes / ReturnActions: docs/rules.md and the Fastly *)
(*                lifecycle,                                               *)
(*              - a use in a subroutine annotated with the scope set S is  *)
(*                allowed iff it is allowed in every scope of S.           *)
(* A cell is one use; TLC enumerates the cells of the selected Mode (each  *)
(* cell is an initial state), checks the consistency of the tables, and    *)
(* prints for every cell whether the linter must accept it.  Whatever the  *)
(* linter accepts must then execute in the simulator in each scope of the  *)
(* cell (checked by the replayer on the real code).                        *)
(***************************************************************************)
EXTENDS Naturals, Sequences, FiniteSets, TLC, Json, Predefined, Builtins

CONSTANTS Mode,       \* "ops" | "vars" | "fns" | "stmts" | "all"
          Pairs,      \* TRUE: also every two-scope annotation of a user subroutine
          SliceMod,   \* only the rows/cells whose index = SliceRem modulo SliceMod (1, 0 = everything)
          SliceRem

ScopeSeq == <<"RECV", "HASH", "HIT", "MISS", "PASS", "FETCH", "ERROR", "DELIVER", "LOG">>
Scopes   == {ScopeSeq[i] : i \in 1..Len(ScopeSeq)}
ScopeSets == {{s} : s \in Scopes} \cup (IF Pairs THEN {{ScopeSeq[i], ScopeSeq[j]} : i, j \in 1..Len(ScopeSeq)} ELSE {})
\* scope sets as sequences in lifecycle order (JSON has no sets)
SeqOf(S) == LET idx == {i \in 1..Len(ScopeSeq) : ScopeSeq[i] \in S}
                RECURSIVE Build(_, _)
                Build(I, acc) == IF I = {} THEN acc
                                 ELSE LET m == CHOOSE i \in I : \A j \in I : i <= j IN Build(I \ {m}, Append(acc, ScopeSeq[m]))
            IN Build(idx, << >>)
ScopeIdx(S) == LET I == {i \in 1..Len(ScopeSeq) : ScopeSeq[i] \in S} IN
               (CHOOSE i \in I : \A j \in I : i <= j) * 10 + (CHOOSE i \in I : \A j \in I : i >= j)

(***************************************************************************)
(* Operators                                                               *)
(***************************************************************************)
AssignOps  == {"=", "+=", "-=", "*=", "/=", "%=", "|=", "&=", "^=", "<<=", ">>=", "rol=", "ror=", "&&=", "||="}
CompareOps == {"==", "!=", "<", ">", "<=", ">=", "~", "!~"}
LeftKinds  == {"INTEGER", "FLOAT", "STRING", "BOOL", "RTIME", "TIME", "IP", "BACKEND", "ACL", "HEADER"}
\* value types; REQBACKEND is the type of req.backend, HEADER a req.http.* value (a STRING that may be not set)
RightTypes == {"INTEGER", "FLOAT", "STRING", "BOOL", "RTIME", "TIME", "IP", "BACKEND", "ACL", "HEADER", "REQBACKEND"}
Forms      == {"literal", "local", "predefined"}

\* which (value type, form) combinations exist in the language at all
Exists(rt, form) ==
  CASE form = "literal"    -> rt \in {"INTEGER", "FLOAT", "STRING", "BOOL", "RTIME", "BACKEND", "ACL"}   \* backend / acl names
    [] form = "local"      -> rt \in {"INTEGER", "FLOAT", "STRING", "BOOL", "RTIME", "TIME", "IP", "BACKEND", "ACL"}
    [] form = "predefined" -> rt \in {"INTEGER", "FLOAT", "STRING", "BOOL", "RTIME", "TIME", "IP", "HEADER", "REQBACKEND"}

\* HEADER behaves as STRING on both sides of the table
N(t) == IF t = "HEADER" THEN "STRING" ELSE t

\* "both" = literal and variable, "var" = variable only, "no" = never
AssignClass(lt, rt) ==
  CASE lt = "INTEGER" -> IF rt = "INTEGER" THEN "both" ELSE IF rt \in {"FLOAT", "RTIME", "TIME"} THEN "var" ELSE "no"
    [] lt = "FLOAT"   -> IF rt \in {"INTEGER", "FLOAT"} THEN "both" ELSE IF rt \in {"RTIME", "TIME"} THEN "var" ELSE "no"
    [] lt = "STRING"  -> IF rt \in {"STRING", "BOOL"} THEN "both"
                         ELSE IF rt \in {"INTEGER", "FLOAT", "RTIME", "TIME", "IP", "REQBACKEND"} THEN "var" ELSE "no"
    [] lt \in {"RTIME", "TIME"} -> IF rt \in {"RTIME", "TIME"} THEN "both" ELSE IF rt \in {"INTEGER", "FLOAT"} THEN "var" ELSE "no"
    [] lt = "IP"      -> IF rt \in {"STRING", "IP"} THEN "both" ELSE "no"
    [] lt = "BACKEND" -> IF rt \in {"BACKEND", "REQBACKEND"} THEN "both" ELSE "no"
    [] lt = "BOOL"    -> IF rt = "BOOL" THEN "both" ELSE "no"
    [] lt = "ACL"     -> IF rt = "ACL" THEN "both" ELSE "no"

AddSubClass(op, lt, rt) ==
  CASE lt = "INTEGER" -> IF rt = "INTEGER" THEN "both" ELSE IF rt \in {"FLOAT", "RTIME", "TIME"} THEN "var" ELSE "no"
    [] lt = "FLOAT"   -> IF rt \in {"INTEGER", "FLOAT"} THEN "both" ELSE IF rt \in {"RTIME", "TIME"} THEN "var" ELSE "no"
    [] lt = "RTIME"   -> IF rt = "RTIME" THEN "both" ELSE IF rt \in {"INTEGER", "FLOAT", "TIME"} THEN "var" ELSE "no"
    [] lt = "TIME"    -> IF rt = "RTIME" THEN "both" ELSE IF rt \in {"INTEGER", "FLOAT"} THEN "var" ELSE "no"
    [] lt = "STRING"  -> IF op = "+=" THEN AssignClass("STRING", rt) ELSE "no"
    [] OTHER          -> "no"

MulClass(lt, rt) ==
  CASE lt = "INTEGER"            -> IF rt = "INTEGER" THEN "both" ELSE IF rt = "FLOAT" THEN "var" ELSE "no"
    [] lt \in {"FLOAT", "RTIME"} -> IF rt \in {"INTEGER", "FLOAT"} THEN "both" ELSE "no"
    [] OTHER                     -> "no"

Class(op, lt0, rt0) ==
  LET lt == N(lt0)  rt == N(rt0) IN
  CASE op = "="                   -> AssignClass(lt, rt)
    [] op \in {"+=", "-="}        -> AddSubClass(op, lt, rt)
    [] op \in {"*=", "/=", "%="}  -> MulClass(lt, rt)
    [] op \in {"|=", "&=", "^=", "<<=", ">>=", "rol=", "ror="} -> IF lt = "INTEGER" /\ rt = "INTEGER" THEN "both" ELSE "no"
    [] op \in {"&&=", "||="}      -> IF lt = "BOOL" /\ rt = "BOOL" THEN "both" ELSE "no"

AssignOK(op, lt, rt, form) == LET c == Class(op, lt, rt) IN c = "both" \/ (c = "var" /\ form # "literal")

\* comparisons: == and != need the same type on both sides (req.backend counts as BACKEND).  The ordering operators
\* take numbers and relative times - mixing a relative time with a number works for variables only - and two
\* absolute times.  ~ and !~ take a STRING on the left with a regular expression literal or an ACL on the right,
\* or an IP on the left with an ACL on the right.
B(t) == IF t = "REQBACKEND" THEN "BACKEND" ELSE N(t)
OrderClass(lt, rt) ==
  CASE lt = "INTEGER" -> IF rt = "INTEGER" THEN "both" ELSE IF rt = "RTIME" THEN "var" ELSE "no"
    [] lt = "FLOAT"   -> IF rt \in {"INTEGER", "FLOAT"} THEN "both" ELSE IF rt = "RTIME" THEN "var" ELSE "no"
    [] lt = "RTIME"   -> IF rt = "RTIME" THEN "both" ELSE IF rt \in {"INTEGER", "FLOAT"} THEN "var" ELSE "no"
    [] lt = "TIME"    -> IF rt = "TIME" THEN "both" ELSE "no"
    [] OTHER          -> "no"
CompareOK(op, lt, rt, form) ==
  CASE op \in {"==", "!="} -> B(lt) = B(rt)
    [] op \in {"<", ">", "<=", ">="} ->
          LET c == OrderClass(N(lt), N(rt)) IN c = "both" \/ (c = "var" /\ form # "literal")
    [] op \in {"~", "!~"} ->
          \/ N(lt) = "STRING" /\ rt = "STRING" /\ form = "literal"
          \/ N(lt) \in {"STRING", "IP"} /\ rt = "ACL"

\* An operand that is a local variable (or a header) holds a value that got there somehow: it was only declared
\* ("none"), or it was first assigned from a literal, from another local variable or from a predefined variable.
\* What the tables allow does not depend on that - and neither may what the simulator does with the value.
InitHows == {"none", "literal", "local", "predefined"}
InitType(t, how) ==
  CASE t = "HEADER"  -> IF how = "predefined" THEN "HEADER" ELSE "STRING"
    [] t = "IP"      -> IF how = "literal" THEN "STRING" ELSE "IP"        \* an address written as a string literal
    [] t = "BACKEND" -> IF how = "predefined" THEN "REQBACKEND" ELSE "BACKEND"
    [] OTHER         -> t
\* the initialising assignment itself must be one the tables allow
\* (IF, not \/: inside Init TLC explores both sides of a disjunction)
InitExists(t, how) == IF how = "none" THEN TRUE ELSE Exists(InitType(t, how), how) /\ AssignOK("=", t, InitType(t, how), how)
RInits(rt, form) == IF form = "local" THEN {h \in InitHows \ {"none"} : InitExists(rt, h)} ELSE {"none"}

OpCellExists(d) == Exists(d.rt, d.form) /\ InitExists(d.lt, d.linit) /\ d.rinit \in RInits(d.rt, d.form)

OpExpect(c) == IF c.kind = "assign" THEN AssignOK(c.op, c.lt, c.rt, c.form) ELSE CompareOK(c.op, c.lt, c.rt, c.form)

(***************************************************************************)
(* Variables and functions (generated tables)                              *)
(***************************************************************************)
Accesses == {"get", "set", "unset"}
KnownTypes == {"INTEGER", "FLOAT", "STRING", "BOOL", "RTIME", "TIME", "IP", "BACKEND", "ACL", "ID", "REQBACKEND",
               "TABLE", "STRING_LIST", "REGEX"}
SettableTypes == {"INTEGER", "FLOAT", "STRING", "BOOL", "RTIME", "IP", "BACKEND", "REQBACKEND"}

Has(v, acc) == CASE acc = "get" -> v.get # "" [] acc = "set" -> v.set # "" [] acc = "unset" -> v.unset
VarAllowed(v, acc, S) == Has(v, acc) /\ S \subseteq v.on
FnAllowed(f, S) == S \subseteq f.on

InSlice(i) == i % SliceMod = SliceRem

(***************************************************************************)
(* Scope-restricted statements                                             *)
(***************************************************************************)
StmtScopes(s) ==
  CASE s = "restart"   -> {"RECV", "HIT", "FETCH", "ERROR", "DELIVER"}        \* docs/rules.md restart-statement/scope
    [] s = "error"     -> {"RECV", "HIT", "MISS", "PASS", "FETCH"}            \* docs/rules.md error-statement/scope
    [] s = "synthetic" -> {"ERROR"}                                           \* docs/rules.md synthetic-statement/scope
    [] s = "esi"       -> {"FETCH"}                                           \* Fastly: esi is a vcl_fetch statement
Stmts == {"restart", "error", "synthetic", "esi"}

\* return(action): the Fastly request lifecycle (the same table as spec/Lifecycle.tla)
ReturnActions(sc) ==
  CASE sc = "RECV"    -> {"lookup", "pass", "error", "restart"}
    [] sc = "HASH"    -> {"hash"}
    [] sc = "HIT"     -> {"deliver", "pass", "error", "restart"}
    [] sc = "MISS"    -> {"fetch", "deliver_stale", "pass", "error"}
    [] sc = "PASS"    -> {"pass"}
    [] sc = "FETCH"   -> {"deliver", "deliver_stale", "hit_for_pass", "pass", "error", "restart"}
    [] sc = "ERROR"   -> {"deliver", "deliver_stale", "restart"}
    [] sc = "DELIVER" -> {"deliver", "restart"}
    [] sc = "LOG"     -> {"deliver"}
Actions == UNION {ReturnActions(sc) : sc \in Scopes}

StmtAllowed(s, S) == S \subseteq StmtScopes(s)
ReturnAllowed(a, S) == \A sc \in S : a \in ReturnActions(sc)

(***************************************************************************)
(* The cell under examination                                              *)
(***************************************************************************)
VARIABLE cell
vars == << cell >>

\* (quantifiers, not one big set: TLC evaluates constant-level sets eagerly)
InitOps  == \E lt \in LeftKinds, rt \in RightTypes, f \in Forms, li \in InitHows, ri \in InitHows :
               /\ Exists(rt, f) /\ InitExists(lt, li) /\ ri \in RInits(rt, f)
               /\ \/ \E op \in AssignOps :
                       cell = [kind |-> "assign", op |-> op, lt |-> lt, rt |-> rt, form |-> f, linit |-> li, rinit |-> ri]
                  \/ \E op \in CompareOps :
                       cell = [kind |-> "compare", op |-> op, lt |-> lt, rt |-> rt, form |-> f, linit |-> li, rinit |-> ri]
InitVars == \E v \in VarTable, acc \in Accesses, S \in ScopeSets :
               /\ InSlice(v.idx + ScopeIdx(S))
               /\ cell = [kind |-> "var", name |-> v.name, access |-> acc, get |-> v.get, set |-> v.set,
                          deprecated |-> v.deprecated, scopes |-> SeqOf(S), allowed |-> VarAllowed(v, acc, S)]
InitFns  == \E f \in FnTable, S \in ScopeSets :
               /\ InSlice(f.idx + ScopeIdx(S))
               /\ \E k \in 1..(IF Len(f.sigs) = 0 THEN 1 ELSE Len(f.sigs)) :
                    cell = [kind |-> "fn", name |-> f.name, sig |-> (IF Len(f.sigs) = 0 THEN << >> ELSE f.sigs[k]),
                            ret |-> f.ret, extra |-> f.extra, scopes |-> SeqOf(S), allowed |-> FnAllowed(f, S)]
\* signatures: a call is allowed iff its argument list has the length and the types of a declared signature; a
\* signature ending in STRING_LIST takes one or more STRINGs there.  Cells: every argument count from 0 to one more
\* than the longest declared signature, and every declared signature with one argument replaced by a value of a
\* type no parameter type converts from (an ACL name; an INTEGER where the parameter is an ACL).
Variadic(sig) == Len(sig) > 0 /\ sig[Len(sig)] = "STRING_LIST"
ArityOK(f, n) == \/ Len(f.sigs) = 0 /\ n = 0
                 \/ \E k \in 1..Len(f.sigs) : IF Variadic(f.sigs[k]) THEN n >= Len(f.sigs[k]) ELSE n = Len(f.sigs[k])
MaxArity(f) == IF Len(f.sigs) = 0 THEN 0
               ELSE LET L == {Len(f.sigs[k]) : k \in 1..Len(f.sigs)} IN CHOOSE m \in L : \A x \in L : m >= x
\* the argument types to call with for a count n: a declared signature of that length if there is one, else the
\* first signature cut or padded with STRINGs
ArgsFor(f, n) ==
  LET fits == {k \in 1..Len(f.sigs) : Len(f.sigs[k]) = n}
      base == IF fits # {} THEN f.sigs[CHOOSE k \in fits : \A j \in fits : k <= j]
              ELSE IF Len(f.sigs) = 0 THEN << >> ELSE f.sigs[1]
  IN [i \in 1..n |-> IF i <= Len(base) /\ base[i] # "STRING_LIST" THEN base[i] ELSE "STRING"]
Witness(t) == IF t = "ACL" THEN "INTEGER" ELSE "ACL"
HomeScope(f) == LET I == {i \in 1..Len(ScopeSeq) : ScopeSeq[i] \in f.on} IN ScopeSeq[CHOOSE i \in I : \A j \in I : i <= j]
InitSigs ==
  \E f \in {g \in FnTable : g.on \cap Scopes # {}} :
     \/ \E n \in 0..(MaxArity(f) + 1) :
          cell = [kind |-> "fnsig", why |-> "arity", name |-> f.name, sig |-> ArgsFor(f, n), ret |-> f.ret, extra |-> f.extra,
                  scopes |-> << HomeScope(f) >>, allowed |-> ArityOK(f, n)]
     \/ \E k \in 1..Len(f.sigs) : \E p \in 1..Len(f.sigs[k]) :
          cell = [kind |-> "fnsig", why |-> "argtype", name |-> f.name,
                  sig |-> [i \in 1..Len(f.sigs[k]) |-> IF i = p THEN Witness(f.sigs[k][i])
                                                        ELSE IF f.sigs[k][i] = "STRING_LIST" THEN "STRING" ELSE f.sigs[k][i]],
                  ret |-> f.ret, extra |-> f.extra, scopes |-> << HomeScope(f) >>, allowed |-> FALSE]

\* arguments: every parameter position that takes a value (not an identifier: ID, TABLE) is called with an argument
\* of EVERY type in every form.  What a parameter accepts: its own type; a STRING parameter follows the assignment
\* rule STRING = value (a variable of another type converts, a literal does not - except BOOL); the time and address
\* types also take a STRING (a literal written in their notation).
ValueParams == {"STRING", "STRING_LIST", "INTEGER", "FLOAT", "BOOL", "RTIME", "TIME", "IP", "BACKEND", "ACL"}
\* (a BACKEND variable also converts to a STRING argument - linter and simulator agree, reviewed once; the
\* members of a variadic STRING list take no conversion at all)
ArgOK(p, rt, form) ==
  CASE p = "STRING"      -> AssignOK("=", "STRING", rt, form) \/ (rt = "BACKEND" /\ form # "literal")
    [] p = "STRING_LIST" -> N(rt) = "STRING"
    [] p = "TIME"        -> N(rt) \in {"TIME", "STRING"}
    [] p = "RTIME"       -> N(rt) \in {"RTIME", "TIME", "STRING"}
    [] p = "IP"          -> N(rt) \in {"IP", "STRING"}
    [] OTHER             -> N(rt) = p
\* parameters that are regular expression patterns must be string literals whatever their type says
PatternParams == {<<"regsub", 2>>, <<"regsuball", 2>>}
InitConv ==
  \E f \in {g \in FnTable : g.on \cap Scopes # {}} : \E k \in 1..Len(f.sigs) : \E p \in 1..Len(f.sigs[k]) :
     \E rt \in RightTypes, form \in Forms :
        /\ f.sigs[k][p] \in ValueParams /\ <<f.name, p>> \notin PatternParams /\ Exists(rt, form)
        /\ cell = [kind |-> "fnconv", name |-> f.name,
                   sig |-> [i \in 1..Len(f.sigs[k]) |-> IF f.sigs[k][i] = "STRING_LIST" THEN "STRING" ELSE f.sigs[k][i]],
                   pos |-> p, ptype |-> f.sigs[k][p], rt |-> rt, form |-> form, ret |-> f.ret, extra |-> f.extra,
                   scopes |-> << HomeScope(f) >>, allowed |-> ArgOK(f.sigs[k][p], rt, form)]

\* dynamic families (backend.<name>.*, director.<name>.*, ratecounter.<name>.*): the rows with %any% are the only
\* names there are - a name with a suffix no row lists, or of an object that is not declared, is undefined.
\* DynProbes is generated next to VarTable: for every such row one probe with the last segment replaced and one
\* that is to be read for an undeclared object.
ASSUME \A d \in DynProbes : d.how = "badsuffix" => ~ \E v \in VarTable : v.name = d.name
InitDyn == \E d \in DynProbes :
              cell = [kind |-> "dyn", name |-> d.name, base |-> d.base, how |-> d.how, access |-> "get", get |-> d.get,
                      scopes |-> << d.scope >>, allowed |-> FALSE]

InitStmts == \/ \E s \in Stmts, S \in ScopeSets :
                  cell = [kind |-> "stmt", stmt |-> s, action |-> "", scopes |-> SeqOf(S), allowed |-> StmtAllowed(s, S)]
             \/ \E a \in Actions, S \in ScopeSets :
                  cell = [kind |-> "stmt", stmt |-> "return", action |-> a, scopes |-> SeqOf(S), allowed |-> ReturnAllowed(a, S)]

Init ==
  CASE Mode = "ops"   -> InitOps
    [] Mode = "vars"  -> InitVars
    [] Mode = "fns"   -> InitFns
    [] Mode = "stmts" -> InitStmts
    [] Mode = "sigs"  -> InitSigs
    [] Mode = "conv"  -> InitConv
    [] Mode = "dyn"   -> InitDyn
    [] Mode = "all"   -> InitOps \/ InitVars \/ InitFns \/ InitSigs \/ InitConv \/ InitDyn \/ InitStmts

Next == FALSE /\ UNCHANGED vars
Spec == Init /\ [][Next]_vars

Allowed == IF cell.kind \in {"assign", "compare"} THEN OpExpect(cell) ELSE cell.allowed

(***************************************************************************)
(* Consistency of the tables (checked once, before any cell is printed)    *)
(***************************************************************************)
\* every row names at least one scope, only known scopes (PIPE is known to the generator) and known types;
\* names are unique; a variable offers at least one access; what can be set has a settable type
ASSUME \A v \in VarTable : /\ v.on # {} /\ v.on \subseteq Scopes \cup {"PIPE"}
                           /\ (v.get # "" \/ v.set # "" \/ v.unset)
                           /\ v.get \in KnownTypes \cup {""} /\ v.set \in SettableTypes \cup {""}
ASSUME Cardinality({v.name : v \in VarTable}) = VarCount /\ Cardinality(VarTable) = VarCount
ASSUME \A f \in FnTable : /\ f.on # {} /\ f.on \subseteq Scopes \cup {"PIPE"}
                          /\ f.ret \in KnownTypes \cup {""}
                          /\ \A k \in 1..Len(f.sigs) : \A j \in 1..Len(f.sigs[k]) : f.sigs[k][j] \in KnownTypes
ASSUME Cardinality({f.name : f \in FnTable}) = FnCount /\ Cardinality(FnTable) = FnCount
\* the operator tables are total, a literal is never allowed where a variable is not, and the two variable forms agree
ASSUME \A op \in AssignOps, lt \in LeftKinds, rt \in RightTypes :
          /\ Class(op, lt, rt) \in {"both", "var", "no"}
          /\ AssignOK(op, lt, rt, "literal") => AssignOK(op, lt, rt, "local")
          /\ AssignOK(op, lt, rt, "local") <=> AssignOK(op, lt, rt, "predefined")
\* every left kind can be given a value in at least one way besides being declared
ASSUME \A lt \in LeftKinds : \E h \in InitHows \ {"none"} : InitExists(lt, h)
ASSUME \A op \in CompareOps, lt \in LeftKinds, rt \in RightTypes, f \in Forms : CompareOK(op, lt, rt, f) \in BOOLEAN
\* the multi-scope rule is a conjunction: monotone in the scope set, and a pair is allowed iff both members are
ASSUME \A s \in Stmts : \A S \in ScopeSets : StmtAllowed(s, S) <=> \A sc \in S : StmtAllowed(s, {sc})
ASSUME \A a \in Actions : \A S \in ScopeSets : ReturnAllowed(a, S) <=> \A sc \in S : ReturnAllowed(a, {sc})
\* every lifecycle subroutine can return somewhere
ASSUME \A sc \in Scopes : ReturnActions(sc) # {}

PairConjunction ==
  cell.kind \in {"var", "fn", "stmt"} /\ Len(cell.scopes) = 2 =>
     LET one(i) == CASE cell.kind = "var"  -> \E v \in VarTable : v.name = cell.name /\ VarAllowed(v, cell.access, {cell.scopes[i]})
                     [] cell.kind = "fn"   -> \E f \in FnTable : f.name = cell.name /\ FnAllowed(f, {cell.scopes[i]})
                     [] cell.kind = "stmt" -> IF cell.stmt = "return" THEN ReturnAllowed(cell.action, {cell.scopes[i]})
                                              ELSE StmtAllowed(cell.stmt, {cell.scopes[i]})
     IN Allowed <=> (one(1) /\ one(2))

EmitInv == PrintT(<<"BEHAVIOUR", ToJson([cell |-> cell, lint |-> (IF Allowed THEN "accept" ELSE "reject")])>>)
=============================================================================
